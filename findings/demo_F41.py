"""C08-H5: flow parameters share one flat namespace with the runtime's own StartFlow /
FlowStarted / FlowFinished event arguments (flow_id, flow_instance_uid, context,
source_flow_instance_uid, activated, ...). The parser accepts such parameter names, but

  * `flow describe $flow_id` called by name  -> the `await` expansion overwrites the user's
    argument with the callee's own name (`element.spec.arguments.update({"flow_id": ...})`):
    the parameter receives "describe" instead of the argument value.
  * the same flow called positionally        -> parameter is bound, but FlowState._create_out_event
    does `arguments.update(self.arguments)` AFTER setting flow_id, so FlowStarted/FlowFinished
    carry flow_id=<argument value>; the caller never matches them and hangs; no return value.
  * `flow answer $question $context` called with `$context=...` -> create_flow_instance treats
    ANY event argument called "context" as a request to share the caller's context and raises
    "Context cannot be shared to flows with parameters" (positional call works).
"""
import argparse, sys, logging, os

ap = argparse.ArgumentParser()
ap.add_argument("--root", default="/repo")
ARGS = ap.parse_args()
sys.path.insert(0, ARGS.root)
logging.disable(logging.CRITICAL)

from nemoguardrails import RailsConfig, LLMRails  # noqa: E402
from tests.utils import FakeLLM  # noqa: E402

YAML = 'colang_version: "2.x"\nmodels: []\n'
DROP = ("uid", "event_created_at", "source_uid")


def run(colang, inputs=()):
    """Drive a Colang 2.x config through the public LLMRails.process_events API.
    Returns the list of all outgoing events (dicts) and the final state."""
    cfg = RailsConfig.from_content(colang_content=colang, yaml_content=YAML)
    app = LLMRails(cfg, llm=FakeLLM(responses=[]))
    app.runtime.disable_async_execution = True
    out, state = app.process_events([], None)
    allout = list(out)
    for ev in inputs:
        out, state = app.process_events([ev], state)
        allout += out
    return [{k: v for k, v in e.items() if k not in DROP} for e in allout], state


def find(events, type_, **kw):
    return [e for e in events if e["type"] == type_ and all(e.get(k) == v for k, v in kw.items())]

TEMPLATE = '''
flow describe ${p}
  send Callee(value=${p})
  return ${p}

flow caller
  $r = {call}
  send CallerDone(r=$r)

flow error watcher
  match ColangError() as $e
  send Caught(error=$e.arguments.error)

flow main
  start error watcher
  match Go()
  start caller
  match Never()
'''

bad = []
for p in ["topic", "flow_id", "context", "flow_instance_uid"]:
    for form, call in [("positional", 'await describe "V"'), ("named", f'await describe ${p}="V"')]:
        ev, st = run(TEMPLATE.replace("{p}", p).replace("{call}", call), [{"type": "Go"}, {"type": "Tick"}])
        callee = [e["value"] for e in find(ev, "Callee")]
        done = [e["r"] for e in find(ev, "CallerDone")]
        err = [e["error"] for e in find(ev, "Caught")]
        print(f"parameter ${p:18s} {form:10s}: callee received {callee!s:14s} caller got {done!s:8s} errors {err}")
        if callee != ["V"] or done != ["V"]:
            bad.append((p, form))

print("expected: every row -> callee received ['V'], caller got ['V'], no errors")
if bad:
    print("VIOLATION for", bad)
    sys.exit(1)
print("OK: no violation")
sys.exit(0)
