"""C13h3-H3: the Colang 2.x grammar declares form feed to be ignorable white space
(`%ignore /[\\t \\f]+/`, taken over from lark's Python grammar, where a line of blanks, tabs
and form feeds is a blank line), but the _NEWLINE terminal only swallows blanks and tabs
after a line break.  A white-space-only line that contains a form feed (the "page break"
some editors insert) inside an indented block therefore splits the newline token in two:
the first one dedents to column 0, the second one indents again, and the file is rejected,
while the same file with an ordinary blank line there (or with the form feed as trailing
white space of a statement) loads fine."""
import argparse
import logging
import os
import sys
import tempfile
import warnings

ap = argparse.ArgumentParser()
ap.add_argument("--root", default="/repo")
args = ap.parse_args()
sys.path.insert(0, args.root)
logging.disable(logging.CRITICAL)
warnings.simplefilter("ignore")

from nemoguardrails import RailsConfig  # noqa: E402
from nemoguardrails.rails.llm.config import ColangParsingError  # noqa: E402

YAML = 'colang_version: "2.x"\nmodels: []\n'


def load(colang: str):
    with tempfile.TemporaryDirectory() as d:
        with open(os.path.join(d, "config.yml"), "w") as f:
            f.write(YAML)
        with open(os.path.join(d, "main.co"), "w") as f:
            f.write(colang)
        try:
            config = RailsConfig.from_path(d)
        except ColangParsingError as e:
            return "error", "ColangParsingError: " + str(e).split("\n")[1][:80]
        except Exception as e:
            return "error", f"{type(e).__name__}: {e}"
        return "flows", [(flow.name, len(flow.elements)) for flow in config.flows]


BASE = 'flow main\n  bot say "one"\n{BLANK}  bot say "two"\n'
LAYOUTS = {
    "no blank line": "",
    "empty line": "\n",
    "line of blanks and a tab": "   \t\n",
    "line with a form feed": "\f\n",
    "line of blanks and a form feed": "  \f\n",
}
results = {}
for name, blank in LAYOUTS.items():
    results[name] = load(BASE.replace("{BLANK}", blank))
    print(f"{name:<32} -> {results[name]}")
# the form feed is accepted as (trailing) white space everywhere else:
results["form feed as trailing white space"] = load('flow main\n  bot say "one" \f\n  bot say "two"\f\n')
print(f"{'form feed as trailing white space':<32} -> {results['form feed as trailing white space']}")

print()
print("expected: every layout parses to the same flow (main, 3 elements)")
if len({repr(r) for r in results.values()}) != 1:
    print("observed: the white-space-only lines that contain a form feed make the file a parsing error")
    sys.exit(1)
print("observed: same result for every layout")
sys.exit(0)
