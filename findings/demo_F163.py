"""C13h3-H1: a Colang 2.x file that consists of ONE module level statement other than a
flow/import (e.g. a `while` block, or a lone `pass`) by-passes the check "Only flow
definitions and imports are allowed outside of a flow".  The very same file with one blank
line (or a line of blanks) added in front of the statement is rejected with
ColangParsingError.  Adding a blank line therefore changes what the file parses to
(flows [greeting] / successful load  vs.  parsing error).  The same inlining makes a file that
only holds a module doc string fail as written and load once a blank line precedes it."""
import argparse
import logging
import os
import re
import sys
import tempfile
import warnings

ap = argparse.ArgumentParser()
ap.add_argument("--root", default="/repo")
args = ap.parse_args()
sys.path.insert(0, args.root)
logging.disable(logging.CRITICAL)
warnings.simplefilter("ignore")

from nemoguardrails import RailsConfig  # noqa: E402
from nemoguardrails.rails.llm.config import ColangParsingError  # noqa: E402

YAML = 'colang_version: "2.x"\nmodels: []\n'


def load(colang: str):
    """Returns ("flows", [names]) or ("error", exception type name + first line)."""
    with tempfile.TemporaryDirectory() as d:
        with open(os.path.join(d, "config.yml"), "w") as f:
            f.write(YAML)
        with open(os.path.join(d, "main.co"), "w") as f:
            f.write(colang)
        try:
            config = RailsConfig.from_path(d)
        except ColangParsingError as e:
            return "error", "ColangParsingError: " + str(e).split("\n")[1]
        except Exception as e:  # any other type would be a violation of its own
            return "error", f"{type(e).__name__}: {e}"
        return "flows", [flow.name for flow in config.flows]


CASES = {
    "flows inside a module level `while`": 'while True\n  flow greeting\n    bot say "hi"\n',
    "a file that only contains `pass`": "pass\n",
    "a file that only contains a module doc string": '"""Flows of module X (to be written)."""\n',
}
LAYOUTS = {
    "as written": lambda s: s,
    "blank line in front": lambda s: "\n" + s,
    "line of blanks in front": lambda s: "   \n" + s,
}

violated = False
for title, source in CASES.items():
    print(f"--- {title}: {source!r}")
    results = {}
    for layout, fn in LAYOUTS.items():
        results[layout] = load(fn(source))
        print(f"  {layout:<24} -> {results[layout]}")
    # (the line number in the message legitimately moves with the blank line)
    if len({re.sub(r"line \d+", "line N", repr(r)) for r in results.values()}) != 1:
        violated = True

print()
print("expected: blank lines in front of the first statement do not change the outcome")
if violated:
    print("observed: the single statement files load as written (registering the flows inside the")
    print("          `while`) but are rejected once a blank line precedes the statement; the doc")
    print("          string only file behaves the other way round")
    sys.exit(1)
print("observed: same outcome for every layout")
sys.exit(0)
