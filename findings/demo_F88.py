"""C06-H4: `deactivate x` by one of two activators kills the running instance of x without
restart but leaves the activation count of x at 1.  From then on x is 'activated' but
has no running instance: the remaining activator b gets no reactions any more, and a new
flow c that executes `activate x` only bumps the counter - x is not started for it.

(When the instance of x that is running is the very first one, the same `deactivate x`
only decrements the counter and x keeps running - so the reference count semantics is
what the code intends; the restarted instances are simply handled differently.)

Exit code 1 = violation reproduced, 0 = behaviour correct.
"""
import contextlib
import io
import logging
import sys

ROOT = sys.argv[sys.argv.index("--root") + 1] if "--root" in sys.argv else "/repo"
sys.path.insert(0, ROOT)
logging.disable(logging.CRITICAL)

from nemoguardrails.colang.v2_x.runtime.flows import FlowStatus  # noqa: E402
from nemoguardrails.colang.v2_x.runtime.statemachine import (  # noqa: E402
    InternalEvent,
    run_to_completion,
)

with contextlib.redirect_stdout(io.StringIO()):
    from tests.utils import _init_state  # noqa: E402

RUNNING = (FlowStatus.WAITING, FlowStatus.STARTING, FlowStatus.STARTED)

CONTENT = """
flow x
  match UtteranceUserAction.Finished(final_transcript="ping")
  await UtteranceBotAction(script="pong")

flow a
  activate x
  match UtteranceUserAction.Finished(final_transcript="a deactivates x")
  deactivate x
  match UtteranceUserAction.Finished(final_transcript="never")

flow b
  activate x
  match UtteranceUserAction.Finished(final_transcript="never")

flow c
  activate x
  match UtteranceUserAction.Finished(final_transcript="never")

flow main
  start a
  start b
  match UtteranceUserAction.Finished(final_transcript="start c")
  start c
  match UtteranceUserAction.Finished(final_transcript="never")
"""

with contextlib.redirect_stdout(io.StringIO()):
    state = _init_state(CONTENT)


def step(event):
    run_to_completion(state, event)
    return list(state.outgoing_events)


def user(text):
    """Send a user utterance; bot utterances finish immediately. Returns what the bot said."""
    said = []
    queue = [{"type": "UtteranceUserActionFinished", "final_transcript": text}]
    while queue:
        for e in step(queue.pop(0)):
            if e["type"] == "StartUtteranceBotAction":
                said.append(e["script"])
                queue.append(
                    {
                        "type": "UtteranceBotActionFinished",
                        "action_uid": e["action_uid"],
                        "is_success": True,
                        "final_script": e["script"],
                    }
                )
    return said


def report(label):
    running = [fs.uid[:12] for fs in state.flow_id_states["x"] if fs.status in RUNNING]
    counts = [fs.activated for fs in state.flow_id_states["x"] if fs.parent_uid
              and state.flow_states[fs.parent_uid].flow_id != "x"]
    print(f"{label:32s} activation count of x = {counts}  running instances of x = {len(running)}")
    return running


step(InternalEvent(name="StartFlow", arguments={"flow_id": "main"}))
report("a and b activated x:")
print("  'ping' ->", user("ping"))  # x answers and restarts once
report("after the first ping/pong:")

user("a deactivates x")
running = report("after `deactivate x` in a:")
said_b = user("ping")
print("  'ping' ->", said_b, "  (expected ['pong']: b is running and still has x activated)")

user("start c")
running_c = report("after c did `activate x`:")
said_c = user("ping")
print("  'ping' ->", said_c, "  (expected ['pong']: c just activated x and is running)")

alive = {f: state.flow_id_states[f][0].status.name for f in ("a", "b", "c")}
print("activators:", alive)
if not running or said_b != ["pong"] or not running_c or said_c != ["pong"]:
    print("VIOLATION: x is activated by running flows (b, c) but no instance of x is running")
    sys.exit(1)
sys.exit(0)
