"""C12-H4 (Colang 1.0): `user A or user B` is accepted by the parser and compiled into an
`any` group element (followed by its members) that NO part of the 1.0 runtime can execute:
sliding.slide() stops on it, flows._is_match() never matches it, compute_next_state() only
knows `branch`.  The group construct is therefore left unexpanded in the compiled flow and a
flow containing it can never start / never get past it.  The equivalent `when/else when`
branch (which IS lowered to `branch` + relative jumps) works.

exit 1 = violation reproduced, exit 0 = behaviour correct.
"""
import argparse
import hashlib
import logging
import sys
import threading

ap = argparse.ArgumentParser()
ap.add_argument("--root", default="/repo")
args = ap.parse_args()
sys.path.insert(0, args.root)
logging.disable(logging.CRITICAL)
threading.excepthook = lambda *a: None

from nemoguardrails import LLMRails, RailsConfig  # noqa: E402
from nemoguardrails.colang.v1_0.lang.parser import parse_colang_file  # noqa: E402
from nemoguardrails.embeddings.providers import register_embedding_provider  # noqa: E402
from nemoguardrails.embeddings.providers.base import EmbeddingModel  # noqa: E402
from tests.utils import FakeLLM  # noqa: E402


class FakeHash(EmbeddingModel):
    engine_name = "fakehash"

    def __init__(self, embedding_model=None, **kwargs):
        self.model = embedding_model
        self.embedding_size = 16

    def encode(self, documents):
        out = []
        for d in documents:
            h = hashlib.sha256(d.encode()).digest()
            out.append([b / 255.0 for b in h[:16]])
        return out

    async def encode_async(self, documents):
        return self.encode(documents)


register_embedding_provider(FakeHash, "fakehash")

YAML = """
models:
  - type: main
    engine: fake
    model: fake
  - type: embeddings
    engine: fakehash
    model: x
"""

COMMON = """
define user express greeting
  "hello"

define user express goodbye
  "bye"

define user express thanks
  "thanks"

define bot express welcome
  "Welcome!"

define bot express farewell
  "Bye!"
"""

OR_FLOW = COMMON + """
define flow
  user express greeting
  bot express welcome
  user express goodbye or user express thanks
  bot express farewell
"""

WHEN_FLOW = COMMON + """
define flow
  user express greeting
  bot express welcome
  when user express goodbye
    bot express farewell
  else when user express thanks
    bot express farewell
"""


def compiled(src):
    data = parse_colang_file("main.co", src)
    return [{k: v for k, v in e.items() if k != "_source_mapping"} for e in data["flows"][0]["elements"]]


def answer(src):
    config = RailsConfig.from_content(colang_content=src, yaml_content=YAML)
    # 1st completion = the user intent, 2nd = what the LLM would say if no flow decides
    # completions: intent of turn 1, intent of turn 2, then what the LLM says if no flow decides
    llm = FakeLLM(responses=["  express greeting", "  express goodbye", "  bot express fallback", '  "LLM FALLBACK"'])
    app = LLMRails(config, llm=llm)
    msgs = [{"role": "user", "content": "hello"}]
    r1 = app.generate(messages=msgs)
    msgs += [r1, {"role": "user", "content": "bye"}]
    r2 = app.generate(messages=msgs)
    return [r1["content"], r2["content"]]


els_or = compiled(OR_FLOW)
els_when = compiled(WHEN_FLOW)
print("compiled `when/else when` flow:", [e["_type"] for e in els_when])
print("compiled `or` flow            :", [e["_type"] for e in els_or], "->", [e for e in els_or if e["_type"] == "any"])
a_when = answer(WHEN_FLOW)
a_or = answer(OR_FLOW)
print("expected: both flows answer 'hello','bye' with ['Welcome!', 'Bye!'], and no group element is left in the compiled flow")
print(f"got     : when/else when -> {a_when!r};  `or` -> {a_or!r}")

if any(e["_type"] == "any" for e in els_or) and a_or != ["Welcome!", "Bye!"]:
    print("VIOLATION reproduced: the `any` group is left in the compiled flow and the runtime cannot execute it")
    sys.exit(1)
print("OK")
sys.exit(0)
