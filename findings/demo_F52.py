import argparse, sys, os, logging, tempfile, json, hashlib

ap = argparse.ArgumentParser()
ap.add_argument("--root", default="/repo")
ROOT = ap.parse_args().root
sys.path.insert(0, ROOT)
logging.disable(logging.CRITICAL)

from fastapi.testclient import TestClient  # noqa: E402
from nemoguardrails import RailsConfig  # noqa: E402
from nemoguardrails.server import api  # noqa: E402
from nemoguardrails.server.datastore.memory_store import MemoryStore  # noqa: E402
from nemoguardrails.embeddings.providers import register_embedding_provider  # noqa: E402
from nemoguardrails.embeddings.providers.base import EmbeddingModel  # noqa: E402


class FakeHash(EmbeddingModel):
    """Offline embedding model: sha256-derived vectors (identical text -> identical vector)."""

    engine_name = "fakehash"

    def __init__(self, embedding_model=None, **kwargs):
        self.model = embedding_model
        self.embedding_size = 32

    def encode(self, documents):
        return [[b / 255.0 for b in hashlib.sha256(d.encode()).digest()] for d in documents]

    async def encode_async(self, documents):
        return self.encode(documents)


register_embedding_provider(FakeHash, "fakehash")

YAML_V1 = """models:
  - type: embeddings
    engine: fakehash
    model: x
rails:
  dialog:
    user_messages:
      embeddings_only: True
"""


def write(path, content):
    os.makedirs(os.path.dirname(path), exist_ok=True)
    with open(path, "w") as f:
        f.write(content)


def make_greeter(root, name, reply, utterance="hi", intent="greeting"):
    """A tiny Colang 1.0 config that answers `utterance` with `reply` (no LLM needed)."""
    write(os.path.join(root, name, "config.yml"), YAML_V1)
    write(
        os.path.join(root, name, "rails.co"),
        'define user express {i}\n  "{u}"\n\n'
        'define bot express {i}\n  "{r}"\n\n'
        "define flow\n  user express {i}\n  bot express {i}\n".format(i=intent, u=utterance, r=reply),
    )


def content_of(response):
    try:
        return response.json()["messages"][0]["content"]
    except Exception:
        return "<HTTP %s: %s>" % (response.status_code, response.text[:80])


# ---------------------------------------------------------------------------
# C20-H4: two threads with different ids mix: LLMRails.events_history_cache (one per cached
#         config, shared by every request) is keyed only by the message *texts*, so the events
#         "remembered" for thread A's stored messages are the ones produced in thread B.
# ---------------------------------------------------------------------------
top = tempfile.mkdtemp(prefix="c20h4_")
root = os.path.join(top, "configs")
write(os.path.join(root, "bot", "config.yml"), YAML_V1)
# A custom action with a per-conversation result (think: order number, user lookup, KB result...).
write(
    os.path.join(root, "bot", "actions.py"),
    "from nemoguardrails.actions import action\n\n"
    "COUNTER = {'n': 0}\n\n"
    "@action(name='issue_ticket')\n"
    "async def issue_ticket():\n"
    "    COUNTER['n'] += 1\n"
    "    return 'T-%d' % COUNTER['n']\n",
)
write(
    os.path.join(root, "bot", "rails.co"),
    'define user express greeting\n  "hi"\n\n'
    'define user ask ticket\n  "what is my ticket"\n\n'
    'define bot express greeting\n  "Hello!"\n\n'
    'define bot inform ticket\n  "Your ticket is $ticket"\n\n'
    "define flow\n"
    "  user express greeting\n"
    "  $ticket = execute issue_ticket\n"
    "  bot express greeting\n"
    "  user ask ticket\n"
    "  bot inform ticket\n",
)

store = MemoryStore()
api.register_datastore(store)
api.app.rails_config_path = root
api.app.disable_chat_ui = True
client = TestClient(api.app, raise_server_exceptions=False)

THREAD_A = "thread-A-0000000001"
THREAD_B = "thread-B-0000000002"


def say(thread_id, text):
    r = client.post(
        "/v1/chat/completions",
        json={"config_id": "bot", "thread_id": thread_id, "messages": [{"role": "user", "content": text}]},
    )
    reply = content_of(r)
    print("  [%s] user: %-18r bot: %r" % (thread_id[:8], text, reply))
    return reply


print("Control, thread C alone (ticket T-1 is issued inside its first turn):")
say("thread-C-0000000003", "hi")
control = say("thread-C-0000000003", "what is my ticket")
assert control == "Your ticket is T-1", control

print("Thread A greets (ticket T-2 is issued inside thread A's turn):")
say(THREAD_A, "hi")
print("Thread B greets (ticket T-3 is issued inside thread B's turn):")
say(THREAD_B, "hi")
print("Thread A asks for its ticket:")
reply = say(THREAD_A, "what is my ticket")

print()
print("stored thread A:", store.data["thread-" + THREAD_A])
print("stored thread B:", store.data["thread-" + THREAD_B])
print()
print("expected: thread A's turn is computed from thread A's own stored messages -> 'Your ticket is T-2'")
print("          (as in the control, where no other thread spoke in between)")
print("got     : %r" % reply)

if reply != "Your ticket is T-2":
    print("-> VIOLATION: thread A's reply (and now its stored history) contains thread B's ticket")
    sys.exit(1)
sys.exit(0)
