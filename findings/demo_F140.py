"""C05h2-H1: two flows that send the IDENTICAL action with the documented form
`send UtteranceBotAction(script="Hello").Start()` do not both proceed: one of them is
treated as the loser of an action conflict and fails.

Expected (property C05): flows that try to start an identical action all proceed and the
action is started once.
"""
import argparse
import logging
import sys

ap = argparse.ArgumentParser()
ap.add_argument("--root", default="/repo")
args = ap.parse_args()
sys.path.insert(0, args.root)
logging.disable(logging.CRITICAL)

from nemoguardrails.colang import parse_colang_file  # noqa: E402
from nemoguardrails.colang.v2_x.runtime.flows import InternalEvent, State  # noqa: E402
from nemoguardrails.colang.v2_x.runtime.runtime import (  # noqa: E402
    create_flow_configs_from_flow_list,
)
from nemoguardrails.colang.v2_x.runtime.statemachine import (  # noqa: E402
    initialize_state,
    run_to_completion,
)

COLANG = """
flow a
  match Ev()
  send UtteranceBotAction(script="Hello").Start() as $e
  match Never()

flow b
  match Ev()
  send UtteranceBotAction(script="Hello").Start() as $e
  match Never()

flow main
  start a
  start b
  match Never()
"""


def boot(src):
    cfg = create_flow_configs_from_flow_list(
        parse_colang_file(
            filename="", content=src, include_source_mapping=True, version="2.x"
        )["flows"]
    )
    st = State(flow_states=[], flow_configs=cfg)
    initialize_state(st)
    return run_to_completion(
        st, InternalEvent(name="StartFlow", arguments={"flow_id": "main"})
    )


def status(st, flow_id):
    return [fs.status.name for fs in st.flow_states.values() if fs.flow_id == flow_id]


# Control: the same two flows written with `start UtteranceBotAction(...)` both proceed
ctrl = COLANG.replace(
    'send UtteranceBotAction(script="Hello").Start() as $e',
    'start UtteranceBotAction(script="Hello") as $e',
)
st = run_to_completion(boot(ctrl), {"type": "Ev"})
print(
    "control (start UtteranceBotAction): outgoing=%s a=%s b=%s"
    % (
        [(e["type"], e.get("script")) for e in st.outgoing_events],
        status(st, "a"),
        status(st, "b"),
    )
)

bad = 0
for trial in range(5):
    st = boot(COLANG)
    st = run_to_completion(st, {"type": "Ev"})
    starts = [
        (e["type"], e.get("script"))
        for e in st.outgoing_events
        if e["type"].startswith("Start")
    ]
    sa, sb = status(st, "a"), status(st, "b")
    print(f"trial {trial}: outgoing={starts} a={sa} b={sb}")
    ok = (
        starts == [("StartUtteranceBotAction", "Hello")]
        and sa == ["STARTED"]
        and sb == ["STARTED"]
    )
    if not ok:
        bad += 1

print()
print(
    "expected: exactly one StartUtteranceBotAction(script='Hello') and BOTH flows a and b "
    "still STARTED (identical action -> all proceed, started once)"
)
if bad:
    print(
        f"observed: in {bad}/5 trials one of the two flows was aborted (STOPPED) as the "
        "loser of an action conflict although both send the identical action"
    )
    print("VIOLATION reproduced")
    sys.exit(1)
print("observed: behaviour as expected")
sys.exit(0)
