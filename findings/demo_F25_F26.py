"""F25, F26 (C17.b): Colang 1.0 multi-step generation (`enable_multi_step_generation: True`) starts the LLM's
next-step text as a flow.
  F26: a generated flow that begins with `user ...` has nothing to do yet; _process_start_flow returned [] and
       generate_events indexed next_events[-1]  ->  IndexError out of generate()            (repaired)
  F25: a generated `$a = 1/0` / `if $x.y` is evaluated by slide(); nothing between the processing loop and
       eval_expression contains the error  ->  Exception out of generate()                   (known finding)
Usage: demo_F25_F26.py [F25|F26] [--root DIR]; exit 1 = reproduced."""
import sys
sys.path.insert(0, __file__.rsplit("/", 1)[0])
from _v1multistep import two_turns  # noqa
which = [a for a in sys.argv[1:] if a in ("F25", "F26")] or ["F25", "F26"]
CASES = {"F26": ["user ask again\nbot inform price"], "F25": ["$a = 1/0", "bot inform price\nif $price.value\n  bot say more"]}
bad = 0
for w in which:
    for text in CASES[w]:
        try:
            r = two_turns(text)
            ok = all(isinstance(x, dict) and x.get("role") == "assistant" and isinstance(x.get("content"), str) for x in r)
            print("%s %r -> %r" % (w, text, [x.get("content") for x in r]))
        except Exception as e:  # noqa
            ok = False
            print("%s %r -> generate raised %s: %s" % (w, text, type(e).__name__, e))
        bad += 0 if ok else 1
print("reproduced:", bool(bad))
sys.exit(1 if bad else 0)
