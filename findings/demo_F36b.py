"""C07h2-H1: `await X and Y` never completes when an earlier member of the and-group
finishes immediately (on the event that starts it), although `await Y and X` completes.

All members of an and-group are started one after the other and only then the
Finished events are matched.  A flow that finishes as soon as it is started emits its
FlowFinished event while the awaiting head is still busy starting the next member, so
the event is lost and the formula `check.Finished and wait_a.Finished` is never seen
as satisfied.  The same holds for `when X and Y`.
"""
import argparse
import logging
import sys

ap = argparse.ArgumentParser()
ap.add_argument("--root", default="/repo")
args = ap.parse_args()
sys.path.insert(0, args.root)
logging.disable(logging.CRITICAL)

from nemoguardrails.colang import parse_colang_file  # noqa: E402
from nemoguardrails.colang.v2_x.runtime.flows import State  # noqa: E402
from nemoguardrails.colang.v2_x.runtime.runtime import (  # noqa: E402
    create_flow_configs_from_flow_list,
)
from nemoguardrails.colang.v2_x.runtime.statemachine import (  # noqa: E402
    InternalEvent,
    initialize_state,
    run_to_completion,
)

FLOWS = """
flow check
  # a flow without any waiting statement: it finishes on the event that starts it
  $checked = True

flow wait a
  match A()

flow wait b
  match B()
"""


def first_done(statement, events):
    """Return the index of the step at which Done() is sent (0 = start of main)."""
    content = (
        FLOWS
        + "\nflow main\n"
        + statement
        + "\n  send Done()\n  match Never()\n"
    )
    configs = create_flow_configs_from_flow_list(
        parse_colang_file(
            filename="", content=content, include_source_mapping=True, version="2.x"
        )["flows"]
    )
    state = State(flow_states=[], flow_configs=configs)
    initialize_state(state)
    steps = [InternalEvent(name="StartFlow", arguments={"flow_id": "main"})] + [
        {"type": e} for e in events
    ]
    for idx, event in enumerate(steps):
        state = run_to_completion(state, event)
        if any(e["type"] == "Done" for e in state.outgoing_events):
            return idx
    return None


# (statement, events, expected step of Done)
CASES = [
    ("  await wait a and check", ["A"], 1),  # control: works
    ("  await check and wait a", ["A"], 1),
    ("  await check and check", [], 0),
    ("  await (check and wait a) or wait b", ["A"], 1),
    ("  await check and (wait a or wait b)", ["B"], 1),
    ("  when check and wait a\n    send Done()", ["A"], 1),
]

failed = False
for statement, events, expected in CASES:
    got = first_done(statement, events + ["X", "B", "A"])
    ok = got == expected
    failed |= not ok
    print(
        f"{'ok ' if ok else 'BAD'} {statement.strip().splitlines()[0]!r:45} events={events}: "
        f"expected Done at step {expected}, got {got}"
    )

if failed:
    print(
        "VIOLATION: the group does not complete when its formula over the Finished events "
        "is satisfied; the result depends on the order of the members."
    )
    sys.exit(1)
print("no violation")
sys.exit(0)
