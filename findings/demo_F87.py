"""C06-H3: an action that is shared by two flows gets a Stop event although one of the two
flows is still running and still waiting for it.

Flows p and q both start UtteranceBotAction(script="Hi") in the same round, so the
interpreter merges the two into one shared action (flow_scope_count == 2).  p started it
inside a `when ... or when ...` scope.  When the other `when` case of p fires, the scope
is closed and p gives up its share (count 2 -> 1, correct, no Stop).  When p finishes
later, _finish_flow gives up p's share a second time (count 1 -> 0) and sends
StopUtteranceBotAction although q is still running and awaiting the action.

Exit code 1 = violation reproduced, 0 = behaviour correct.
"""
import contextlib
import io
import logging
import sys

ROOT = sys.argv[sys.argv.index("--root") + 1] if "--root" in sys.argv else "/repo"
sys.path.insert(0, ROOT)
logging.disable(logging.CRITICAL)

from nemoguardrails.colang.v2_x.runtime.flows import FlowStatus  # noqa: E402
from nemoguardrails.colang.v2_x.runtime.statemachine import (  # noqa: E402
    InternalEvent,
    run_to_completion,
)

with contextlib.redirect_stdout(io.StringIO()):
    from tests.utils import _init_state  # noqa: E402

CONTENT = """
flow p
  match UtteranceUserAction.Finished(final_transcript="go")
  when UtteranceBotAction(script="Hi")
    match UtteranceUserAction.Finished(final_transcript="never")
  or when UtteranceUserAction.Finished(final_transcript="interrupt")
    match UtteranceUserAction.Finished(final_transcript="p end")

flow q
  match UtteranceUserAction.Finished(final_transcript="go")
  await UtteranceBotAction(script="Hi")
  start UtteranceBotAction(script="q heard the end of Hi")
  match UtteranceUserAction.Finished(final_transcript="never")

flow main
  start p
  start q
  match UtteranceUserAction.Finished(final_transcript="never")
"""

with contextlib.redirect_stdout(io.StringIO()):
    state = _init_state(CONTENT)


def step(event):
    run_to_completion(state, event)
    return list(state.outgoing_events)


def user(text):
    return step({"type": "UtteranceUserActionFinished", "final_transcript": text})


step(InternalEvent(name="StartFlow", arguments={"flow_id": "main"}))
out = user("go")
starts = [e for e in out if e["type"] == "StartUtteranceBotAction"]
assert len(starts) == 1 and starts[0]["script"] == "Hi", out
uid = starts[0]["action_uid"]
action = state.actions[uid]
print("after 'go'       : one shared action, flow_scope_count =", action.flow_scope_count)
step({"type": "UtteranceBotActionStarted", "action_uid": uid})

out = user("interrupt")  # p leaves the `when` scope, q still awaits the action
print("after 'interrupt': flow_scope_count =", action.flow_scope_count,
      " Stop events:", [e["type"] for e in out if e["type"].startswith("Stop")])
assert not [e for e in out if e["type"] == "StopUtteranceBotAction"]

out = user("p end")  # p finishes
stops = [e for e in out if e["type"] == "StopUtteranceBotAction" and e["action_uid"] == uid]
q_state = state.flow_id_states["q"][0]
q_running = q_state.status in (FlowStatus.STARTED, FlowStatus.STARTING)
print("after 'p end'    : flow_scope_count =", action.flow_scope_count,
      " status =", action.status.name, " q is", q_state.status.name)
print("expected         : no Stop for the shared action while q is running and awaiting it")
if stops and q_running:
    print("VIOLATION: StopUtteranceBotAction was sent for the action q still shares:", stops)
    sys.exit(1)
sys.exit(0)
