"""C07h2-H2: an or-branch that is satisfied is thrown away when, on the same event, a
member of an and-group in ANOTHER or-branch fails.

    match ($job.Finished() and B()) or $job.Failed()      # job fails  -> never completes
    await (job and wait b) or wait a                      # A() finishes `wait a` and fails `job`
    when job and C() / or when A()                        # same

The formula is satisfied (`$job.Failed()` was received / `wait a` finished) but the
statement never completes; swapping the two or-branches makes it complete.
"""
import argparse
import logging
import sys

ap = argparse.ArgumentParser()
ap.add_argument("--root", default="/repo")
args = ap.parse_args()
sys.path.insert(0, args.root)
logging.disable(logging.CRITICAL)

from nemoguardrails.colang import parse_colang_file  # noqa: E402
from nemoguardrails.colang.v2_x.runtime.flows import State  # noqa: E402
from nemoguardrails.colang.v2_x.runtime.runtime import (  # noqa: E402
    create_flow_configs_from_flow_list,
)
from nemoguardrails.colang.v2_x.runtime.statemachine import (  # noqa: E402
    InternalEvent,
    initialize_state,
    run_to_completion,
)

FLOWS = """
flow job
  # fails when A() arrives
  match A()
  abort

flow wait a
  match A()

flow wait b
  match B()
"""


def first_done(body, events):
    """Return (step, marker) of the first Done*() event (step 0 = start of main)."""
    content = FLOWS + "\nflow main\n" + body + "\n  match Never()\n"
    configs = create_flow_configs_from_flow_list(
        parse_colang_file(
            filename="", content=content, include_source_mapping=True, version="2.x"
        )["flows"]
    )
    state = State(flow_states=[], flow_configs=configs)
    initialize_state(state)
    steps = [InternalEvent(name="StartFlow", arguments={"flow_id": "main"})] + [
        {"type": e} for e in events
    ]
    for idx, event in enumerate(steps):
        state = run_to_completion(state, event)
        for e in state.outgoing_events:
            if e["type"].startswith("Done"):
                return idx, e["type"]
    return None


CASES = [
    # control: same formula, or-branches swapped -> works
    (
        "match $job.Failed() or ($job.Finished() and B())",
        "  start job as $job\n  match $job.Failed() or ($job.Finished() and B())\n  send Done()",
        (1, "Done"),
    ),
    (
        "match ($job.Finished() and B()) or $job.Failed()",
        "  start job as $job\n  match ($job.Finished() and B()) or $job.Failed()\n  send Done()",
        (1, "Done"),
    ),
    (
        "await wait a or (job and wait b)",
        "  await wait a or (job and wait b)\n  send Done()",
        (1, "Done"),
    ),
    (
        "await (job and wait b) or wait a",
        "  await (job and wait b) or wait a\n  send Done()",
        (1, "Done"),
    ),
    (
        "when job and C() / or when A()",
        "  when job and C()\n    send Done0()\n  or when A()\n    send Done1()",
        (1, "Done1"),
    ),
]

failed = False
for name, body, expected in CASES:
    # A() fails `job` and at the same time satisfies the other or-branch
    got = first_done(body, ["A", "X", "C", "B"])
    ok = got == expected
    failed |= not ok
    print(f"{'ok ' if ok else 'BAD'} {name!r:55} expected {expected}, got {got}")

if failed:
    print(
        "VIOLATION: the or-group does not complete at the moment one of its branches is "
        "satisfied; the satisfied branch lost the head merge against the failing and-member."
    )
    sys.exit(1)
print("no violation")
sys.exit(0)
