"""C09h2-H2: starting a flow with one positional argument too many raises ColangRuntimeError
in _start_flow, which is called from _handle_event_matching outside of any error handling.
The exception leaves run_to_completion in the middle of a processing round: the internal
events that are still queued are thrown away (the next run_to_completion call replaces the
queue), an innocent flow waits for ever for a FlowStarted event that can no longer come, and
a never started instance of the called flow stays behind, registered for the next StartFlow."""
import argparse, asyncio, logging, sys

ap = argparse.ArgumentParser()
ap.add_argument("--root", default="/repo")
args = ap.parse_args()
sys.path.insert(0, args.root)
logging.disable(logging.CRITICAL)

from nemoguardrails import LLMRails, RailsConfig  # noqa: E402
from nemoguardrails.colang.v2_x.runtime import runtime as runtime_module  # noqa: E402
from nemoguardrails.colang.v2_x.runtime.flows import FlowStatus  # noqa: E402
from nemoguardrails.utils import new_event_dict  # noqa: E402
from tests.utils import FakeLLM  # noqa: E402

COLANG = """
import core

flow greeting $name
  bot say "Hello {$name}"

flow faulty
  match Foo()
  start greeting "a" "b"

flow bystander
  match Foo()
  bot say "bystander reacts to Foo"

flow main
  activate bystander
  activate faulty
  match NeverComingEvent()
"""

# Observation only: remember what was still queued whenever run_to_completion raises
dropped = []
_rtc = runtime_module.run_to_completion


def observing_rtc(state, event):
    try:
        return _rtc(state, event)
    except Exception as e:
        dropped.append((f"{type(e).__name__}: {e}", [ev.name for ev in state.internal_events]))
        raise


runtime_module.run_to_completion = observing_rtc

config = RailsConfig.from_content(colang_content=COLANG, yaml_content='colang_version: "2.x"\nmodels: []\n')
app = LLMRails(config, llm=FakeLLM(responses=[]))
app.runtime.disable_async_execution = True
loop = asyncio.new_event_loop()


def process(events, state):
    return loop.run_until_complete(app.runtime.process_events(events, state))


def turn(event, state):
    said, pending = [], [event]
    while pending:
        out, state = process(pending, state)
        pending = []
        for ev in out:
            if ev["type"] == "StartUtteranceBotAction":
                said.append(ev["script"])
                pending.append(new_event_dict("UtteranceBotActionStarted", action_uid=ev["action_uid"]))
                pending.append(
                    new_event_dict(
                        "UtteranceBotActionFinished",
                        action_uid=ev["action_uid"],
                        is_success=True,
                        final_script=ev["script"],
                    )
                )
    return said, state


_, state = process([], None)
said1, state = turn({"type": "Foo"}, state)
print("turn 1 (Foo) bot said:", said1)
for err, queue in dropped:
    print("   run_to_completion raised:", err)
    print("   internal events still queued at that moment (never processed):", queue)

# A flow instance that never started but is still registered as waiting for StartFlow
orphans = [
    fs.uid
    for fs in state.flow_states.values()
    if fs.flow_id == "greeting" and fs.status == FlowStatus.WAITING
]
indexed = [fs_uid for (fs_uid, _) in state.event_matching_heads.get("StartFlow", []) if fs_uid in orphans]
print("   never started `greeting` instances left in the state:", orphans)
print("   ... of which still registered in event_matching_heads['StartFlow']:", indexed)

said2, state = turn({"type": "Foo"}, state)
print("turn 2 (Foo) bot said:", said2)

bad = False
if any(queue for _, queue in dropped):
    print("VIOLATION: internal events were pending when the processing of the external event ended; they were dropped")
    bad = True
if "bystander reacts to Foo" not in said1 or "bystander reacts to Foo" not in said2:
    print("VIOLATION: the flow `bystander` (no error of its own) never reacts to Foo: it waits for a FlowStarted event")
    print("           whose StartFlow event was dropped. expected 'bystander reacts to Foo' in both turns")
    bad = True
if indexed:
    print("NOTE: a `greeting` instance that never started stays registered for StartFlow(flow_id='greeting');")
    print("      it will also pick up the next, unrelated start of `greeting`")
if not bad:
    print("OK: only the faulty flow failed")
sys.exit(1 if bad else 0)
