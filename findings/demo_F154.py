"""C11h3-H5: discarding long-finished flow instances (_clean_up_state, 5 s after they ended)
changes what the LLM is asked afterwards, and with it the answer of the bot.

GenerateUserIntentAction (actions/v2_x/generation.py, _collect_user_intent_and_examples)
decides whether the flow a head waits for is a user intent by looking at the OLDEST retained
instance of that flow: `state.flow_id_states[flow_id][0].context` must contain the
`_user_intent` mark. Which instance is the oldest one depends on how long ago the finished
instances ended: within 5 s it is a finished instance, after 5 s of idle time it has been
discarded and the current instance is looked at.

Here the first instance of `user expressed greeting` is started by an `@active` flow, i.e.
before main activates `llm continuation` (which marks intent flows when they start), so it
carries no mark; all later instances are marked. The same two user turns are played twice,
the only difference is the idle time between them (1 s vs. 6 s).

The fake LLM follows the prompt: it answers with an intent from the section "These are the
most likely user intents" and with "user said something unclear" if nothing is offered.

Exits 1 when the two conversations differ (violation), 0 when they are the same.
"""
import argparse
import hashlib
import logging
import sys
import time
from typing import List

parser = argparse.ArgumentParser()
parser.add_argument("--root", default="/repo")
args = parser.parse_args()
sys.path.insert(0, args.root)
logging.disable(logging.CRITICAL)

from langchain.llms.base import LLM  # noqa: E402

from nemoguardrails import LLMRails, RailsConfig  # noqa: E402
from nemoguardrails.embeddings.providers import register_embedding_provider  # noqa: E402
from nemoguardrails.embeddings.providers.base import EmbeddingModel  # noqa: E402
from nemoguardrails.utils import new_event_dict  # noqa: E402


class FakeHash(EmbeddingModel):
    """Offline embedding model."""

    engine_name = "fakehash"

    def __init__(self, embedding_model=None, **kwargs):
        self.model = embedding_model
        self.embedding_size = 16

    def encode(self, documents):
        return [
            [b / 255.0 for b in hashlib.sha256(d.encode()).digest()[:16]]
            for d in documents
        ]

    async def encode_async(self, documents):
        return self.encode(documents)


register_embedding_provider(FakeHash, "fakehash")


class PromptFollowingLLM(LLM):
    """Picks the user intent from what the prompt offers."""

    offered: List = []

    @property
    def _llm_type(self):
        return "prompt-following-fake"

    def _answer(self, prompt):
        if "user intent:" not in prompt.rsplit("\n", 1)[-1]:
            # not the user intent task: continue with some bot action
            return 'bot intent: bot ask to rephrase\nbot action: bot say "Can you rephrase?"'
        section = prompt.split("# These are the most likely user intents:")[-1]
        section = section.split("# This is the current conversation")[0].strip()
        self.offered.append(section)
        if "user expressed greeting" in section:
            return "user expressed greeting"
        return "user said something unclear"

    def _call(self, prompt, stop=None, run_manager=None, **kwargs):
        return self._answer(prompt)

    async def _acall(self, prompt, stop=None, run_manager=None, **kwargs):
        return self._answer(prompt)


COLANG = '''
import core
import llm

@active
flow greeting
  user expressed greeting
  bot say "Hello world!"

flow user expressed greeting
  """The user greets the bot in any way or form."""
  user said (regex("(?i)^hi$"))

flow main
  activate llm continuation
  match RestartEvent()
'''
YAML = """
colang_version: "2.x"
models:
  - type: main
    engine: fake
    model: fake
  - type: embeddings
    engine: fakehash
    model: x
"""


def run(idle_seconds: float):
    llm = PromptFollowingLLM()
    llm.offered = []
    config = RailsConfig.from_content(colang_content=COLANG, yaml_content=YAML)
    app = LLMRails(config, llm=llm)
    app.runtime.disable_async_execution = True
    _, state = app.process_events([], None)
    said = []
    for turn, text in enumerate(["hi", "hello there"]):
        if turn == 1:
            time.sleep(idle_seconds)
        events = [{"type": "UtteranceUserActionFinished", "final_transcript": text}]
        while events:
            out, state = app.process_events(events, state)
            events = []
            for ev in out:
                if ev["type"] == "StartUtteranceBotAction":
                    said.append(ev["script"])
                    events.append(
                        new_event_dict(
                            "UtteranceBotActionFinished",
                            action_uid=ev["action_uid"],
                            is_success=True,
                            final_script=ev["script"],
                        )
                    )
                elif ev["type"] == "StartTimerBotAction":
                    events.append(
                        new_event_dict("TimerBotActionStarted", action_uid=ev["action_uid"])
                    )
    return said, llm.offered


quick, quick_offered = run(1.0)
slow, slow_offered = run(6.0)
print("second turn after 1 s: bot said", quick, "| intents offered to the LLM:", quick_offered)
print("second turn after 6 s: bot said", slow, "| intents offered to the LLM:", slow_offered)
if quick != slow or quick_offered != slow_offered:
    print("VIOLATION: the idle time (clean-up of finished flow instances) changed the "
          "later behaviour; expected both conversations to be the same")
    sys.exit(1)
print("ok: both conversations are the same")
sys.exit(0)
