"""C14-H2: nested subflow calls.  When a subflow (outer) calls another subflow (inner)
and inner's first stop is a *wait* (e.g. `user ...`), the runtime does not wait: it
immediately decides the statement that FOLLOWS `do inner` in outer.  If `do inner` is the
last statement of outer, the same code raises IndexError instead.

Exit code 1 = violation reproduced, 0 = behaviour correct.
"""
import argparse
import asyncio
import sys

ap = argparse.ArgumentParser()
ap.add_argument("--root", default="/repo")
args = ap.parse_args()
sys.path.insert(0, args.root)

import logging

logging.disable(logging.CRITICAL)

from nemoguardrails import RailsConfig  # noqa: E402
from nemoguardrails.colang.v1_0.runtime.runtime import RuntimeV1_0  # noqa: E402

CO_1 = """
define subflow wait for confirmation
  user confirm
  bot acknowledge confirmation

define subflow checkout
  do wait for confirmation
  bot inform order placed

define flow order
  user ask to order
  do checkout
  bot say goodbye
"""

# Same thing, but `do wait for confirmation` is the last statement of the outer subflow.
CO_2 = """
define subflow wait for confirmation
  user confirm
  bot acknowledge confirmation

define subflow checkout
  do wait for confirmation

define flow order
  user ask to order
  do checkout
  bot say goodbye
"""


def brief(events):
    out = []
    for e in events:
        if e["type"] == "BotIntent":
            out.append("bot " + e["intent"])
        elif e["type"] == "StartInternalSystemAction":
            out.append("execute " + e["action_name"])
        else:
            out.append(e["type"])
    return out


def conversation(co, user_intents):
    cfg = RailsConfig.from_content(colang_content=co, yaml_content="models: []")
    rt = RuntimeV1_0(config=cfg)
    history, transcript = [], []
    for intent in user_intents:
        history.append({"type": "UserIntent", "intent": intent})
        out = asyncio.run(rt.generate_events(history))
        history.extend(out)
        transcript.append(("user " + intent, brief(out)))
    return transcript


bad = False

print("--- program 1")
print(CO_1)
t = conversation(CO_1, ["ask to order", "confirm"])
for u, o in t:
    print("  %-20s -> %s" % (u, o))
expected = [
    ("user ask to order", ["Listen"]),
    (
        "user confirm",
        ["bot acknowledge confirmation", "bot inform order placed", "bot say goodbye", "Listen"],
    ),
]
if t != expected:
    bad = True
    print("VIOLATION: expected")
    for u, o in expected:
        print("  %-20s -> %s" % (u, o))
    print(
        "  (after `user ask to order` the flow is inside `wait for confirmation`, waiting for"
        " `user confirm`; nothing must be decided yet)"
    )
else:
    print("ok")

print("--- program 2 (`do wait for confirmation` is the last statement of `checkout`)")
try:
    t = conversation(CO_2, ["ask to order", "confirm"])
    for u, o in t:
        print("  %-20s -> %s" % (u, o))
    expected2 = [
        ("user ask to order", ["Listen"]),
        ("user confirm", ["bot acknowledge confirmation", "bot say goodbye", "Listen"]),
    ]
    if t != expected2:
        bad = True
        print("VIOLATION: expected", expected2)
    else:
        print("ok")
except Exception as ex:
    bad = True
    print("VIOLATION: generate_events raised %r instead of waiting for `user confirm`" % (ex,))

sys.exit(1 if bad else 0)
