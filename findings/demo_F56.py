"""C19-H5: cache store `redis` (documented: store_config host/port/db) cannot
store embeddings.  RedisCacheStore.set() hands the Python list of floats straight
to redis.Redis.set() and get() returns the raw reply:
  * redis-py >= 3.0 refuses non bytes/str/int/float values
    (redis.exceptions.DataError: Invalid input of type: 'list'...) -> every search
    for an uncached text raises instead of returning its embedding;
  * redis-py 2.x stringified the value -> get() returns bytes like b"[0.1, 0.2]",
    which is returned to the caller as "the embedding".

No redis package/server exists in this sandbox, so a minimal in-memory stand-in
for the `redis` module is installed that reproduces exactly these two client
behaviours (value encoding rule of redis.connection.Encoder.encode and bytes
replies).  Only nemoguardrails code is under test.

exit 1 = violation reproduced, exit 0 = vectors equal the model's output.
"""
import argparse, sys, asyncio, hashlib, logging, types

ap = argparse.ArgumentParser()
ap.add_argument("--root", default="/repo")
args = ap.parse_args()
sys.path.insert(0, args.root)
logging.disable(logging.CRITICAL)

# ---- stand-in for redis-py ---------------------------------------------------
STRICT = True  # True: redis-py >= 3 semantics, False: redis-py 2.x semantics
_DB = {}


class DataError(Exception):
    pass


class _Redis:
    def __init__(self, host="localhost", port=6379, db=0, **kw):
        pass

    @staticmethod
    def _encode(value):
        if isinstance(value, bytes):
            return value
        if isinstance(value, bool) and STRICT:
            raise DataError("Invalid input of type: 'bool'.")
        if isinstance(value, (int, float)):
            return repr(value).encode()
        if isinstance(value, str):
            return value.encode("utf-8")
        if STRICT:
            raise DataError(
                f"Invalid input of type: '{type(value).__name__}'. "
                "Convert to a bytes, string, int or float first."
            )
        return str(value).encode("utf-8")

    def set(self, key, value):
        _DB[self._encode(key)] = self._encode(value)
        return True

    def get(self, key):
        return _DB.get(self._encode(key))

    def flushall(self):
        _DB.clear()


fake = types.ModuleType("redis")
fake.Redis = _Redis
fake.exceptions = types.SimpleNamespace(DataError=DataError)
sys.modules["redis"] = fake
# -----------------------------------------------------------------------------

from nemoguardrails.embeddings.basic import BasicEmbeddingsIndex
from nemoguardrails.embeddings.providers import register_embedding_provider
from nemoguardrails.embeddings.providers.base import EmbeddingModel


def vec(text):
    h = hashlib.sha256(text.encode()).digest()
    return [b / 255.0 for b in h[:4]]


class FakeHash(EmbeddingModel):
    engine_name = "fakehash"

    def __init__(self, embedding_model):
        pass

    def encode(self, documents):
        return [vec(d) for d in documents]

    async def encode_async(self, documents):
        await asyncio.sleep(0)
        return self.encode(documents)


register_embedding_provider(FakeHash)


async def attempt(strict):
    global STRICT
    STRICT = strict
    _DB.clear()
    idx = BasicEmbeddingsIndex(
        embedding_model="x",
        embedding_engine="fakehash",
        cache_config={
            "enabled": True,
            "key_generator": "md5",
            "store": "redis",
            "store_config": {"host": "localhost", "port": 6379, "db": 0},
        },
    )
    texts = ["hello", "bye"]
    label = "redis-py>=3 semantics" if strict else "redis-py 2.x semantics"
    try:
        got = await idx._get_embeddings(texts)
        got2 = await idx._get_embeddings(texts)  # served from the cache
    except Exception as e:
        print(f"[{label}] expected {vec('hello')}..., got exception {type(e).__name__}: {e}")
        return False
    exp = [vec(t) for t in texts]
    ok = got == exp and got2 == exp
    print(f"[{label}] expected {exp[0]}, got {got[0]!r} (second call: {got2[0]!r})")
    return ok


async def main():
    ok1 = await attempt(True)
    ok2 = await attempt(False)
    if ok1 and ok2:
        print("OK")
        return 0
    print("VIOLATION: with store=redis the texts are not embedded to the model's vectors")
    return 1


sys.exit(asyncio.run(main()))
