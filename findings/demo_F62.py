"""C16-H2: with `tracing.enabled: true` in the config, a call that passes generation options
does not return the GenerationResponse: llmrails.generate_async ends with `res = res.response[0]`.
 - prompt mode : the reply is the FIRST CHARACTER of the (unchanged / rewritten / refusal) text
 - message mode: a bare message dict is returned, the requested `log.activated_rails` is gone

exit 1 = violation reproduced, exit 0 = behaviour correct.
"""
import argparse
import hashlib
import logging
import os
import sys
import tempfile

ap = argparse.ArgumentParser()
ap.add_argument("--root", default="/repo")
args = ap.parse_args()
sys.path.insert(0, args.root)
logging.disable(logging.CRITICAL)

from nemoguardrails import LLMRails, RailsConfig  # noqa: E402
from nemoguardrails.embeddings.providers import register_embedding_provider  # noqa: E402
from nemoguardrails.embeddings.providers.base import EmbeddingModel  # noqa: E402
from nemoguardrails.rails.llm.options import GenerationResponse  # noqa: E402
from tests.utils import FakeLLM  # noqa: E402


class FakeHash(EmbeddingModel):
    engine_name = "fakehash"

    def __init__(self, embedding_model=None, **kwargs):
        self.model = embedding_model

    def encode(self, documents):
        return [[b / 255.0 for b in hashlib.sha256(d.encode()).digest()] for d in documents]

    async def encode_async(self, documents):
        return self.encode(documents)


register_embedding_provider(FakeHash, "fakehash")

COLANG = """
define subflow dummy input rail
  if "dummy" in $user_message
    bot refuse to respond
    stop
"""
tmpdir = tempfile.mkdtemp()
YAML = """
models:
  - type: main
    engine: fake
    model: fake
  - type: embeddings
    engine: fakehash
    model: x
rails:
  input:
    flows:
      - dummy input rail
tracing:
  enabled: true
  adapters:
    - name: FileSystem
      filepath: %s
""" % os.path.join(tmpdir, "traces.jsonl")

config = RailsConfig.from_content(colang_content=COLANG, yaml_content=YAML)
llm = FakeLLM(responses=[])
app = LLMRails(config, llm=llm)
OPTIONS = {"rails": ["input"], "log": {"activated_rails": True}}

bad = False

# 1. prompt mode, allowed input -> reply must be the unchanged user text
text = "Some user input."
res = app.generate(prompt=text, options=dict(OPTIONS))
reply = res.response if isinstance(res, GenerationResponse) else res
print("prompt mode, rails=['input'], allowed input")
print("   expected reply:", repr(text))
print("   got           :", repr(reply), "(returned object type: %s)" % type(res).__name__)
if reply != text:
    bad = True

# 2. prompt mode, blocked input -> reply must be the refusal
res = app.generate(prompt="you are dummy", options=dict(OPTIONS))
reply = res.response if isinstance(res, GenerationResponse) else res
print("prompt mode, rails=['input'], blocked input")
print("   expected reply:", repr("I'm sorry, I can't respond to that."))
print("   got           :", repr(reply))
if reply != "I'm sorry, I can't respond to that.":
    bad = True

# 3. messages mode -> a GenerationResponse with .log.activated_rails (stop on the blocking rail)
res = app.generate(messages=[{"role": "user", "content": "you are dummy"}], options=dict(OPTIONS))
print("messages mode, rails=['input'], blocked input, log.activated_rails requested")
print("   expected: GenerationResponse with log.activated_rails == [dummy input rail (stop=True)]")
print("   got     :", type(res).__name__, res if not isinstance(res, GenerationResponse) else
      [(r.name, r.stop) for r in res.log.activated_rails])
if not isinstance(res, GenerationResponse) or res.log is None or [
    (r.name, r.stop) for r in res.log.activated_rails
] != [("dummy input rail", True)]:
    bad = True

print("LLM calls:", llm.i)
if bad:
    print("VIOLATION: tracing + generation options -> reply truncated to 1 char / log dropped")
    sys.exit(1)
print("OK")
sys.exit(0)
