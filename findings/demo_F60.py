"""C05-H5: the documented flow priority range is 0.0 .. 1.0, but `priority 0.0` is not applied
at all (falsy check): the flow with the LOWEST possible priority competes with the
full, unscaled score and beats flows with priority 0.5 or 0.99.

exit 1 = violation reproduced, exit 0 = behaviour correct."""
import argparse, contextlib, io, logging, random, sys, traceback

ap = argparse.ArgumentParser()
ap.add_argument("--root", default="/repo")
ROOT = ap.parse_args().root
sys.path.insert(0, ROOT)
logging.disable(logging.CRITICAL)

from nemoguardrails.colang.v2_x.runtime.flows import InternalEvent  # noqa: E402
from nemoguardrails.colang.v2_x.runtime.statemachine import run_to_completion  # noqa: E402
from tests.utils import _init_state  # noqa: E402


def init(colang):
    """Parse the Colang 2.x source, create the state and start the main flow."""
    with contextlib.redirect_stdout(io.StringIO()):
        state = _init_state(colang)
    return run_to_completion(
        state, InternalEvent(name="StartFlow", arguments={"flow_id": "main"})
    )


def brief(events):
    keep = ("type", "script", "action_uid")
    return [{k: e[k] for k in keep if k in e} for e in events]


def status(state, flow_id):
    return [fs.status.name for fs in state.flow_states.values() if fs.flow_id == flow_id]

SRC = """
flow a $p
  priority $p
  match UtteranceUserAction.Finished(final_transcript="Go")
  start UtteranceBotAction(script="A")
  match Never()

flow b $p
  priority $p
  match UtteranceUserAction.Finished(final_transcript="Go")
  start UtteranceBotAction(script="B")
  match Never()

flow main
  start a %s
  start b %s
  match Never()
"""
problems = []
# (priority of a, priority of b, expected winner)
CASES = [(0.1, 0.5, "B"), (0.0, 0.5, "B"), (0.0, 0.99, "B"), (0.5, 0.0, "A")]
for pa, pb, expected in CASES:
    winners = set()
    for seed in range(4):
        random.seed(seed)
        st = init(SRC % (pa, pb))
        st = run_to_completion(st, {"type": "UtteranceUserActionFinished", "final_transcript": "Go"})
        scripts = [e["script"] for e in st.outgoing_events if e["type"] == "StartUtteranceBotAction"]
        winners.add(",".join(scripts))
    print(f"priority a={pa} b={pb}: started actions over 4 seeds = {sorted(winners)} (expected only '{expected}')")
    if winners != {expected}:
        problems.append(f"a={pa}, b={pb}: winner(s) {sorted(winners)}, expected '{expected}'")

print()
print("EXPECTED: each match score is multiplied by the flow priority, so the flow with the higher priority wins;")
print("          a flow with priority 0.0 can never beat a flow with a positive priority.")
if problems:
    print("VIOLATION:")
    for p in problems:
        print("  -", p)
    sys.exit(1)
print("OK: behaviour correct")
sys.exit(0)
