#!/usr/bin/env python
"""C01h2-H4: Colang 1.0, `passthrough: true`, chat-style `messages` - a user message that an input rail
rewrote (e.g. PII masking) is sent to the LLM in its ORIGINAL form on every later turn.

In passthrough mode `generate_user_intent` (actions/llm/generation.py, `elif isinstance(raw_prompt, list)`)
prompts the LLM with the raw `messages` list of the request and only replaces the content of the LAST
message with the rewritten `UserMessage` text.  The earlier user messages of the conversation are taken
verbatim from the request, although the runtime has the rewritten texts (the `UserMessage` events of the
previous turns, found through the events-history cache).  So the text the rail removed in turn 1 reaches
the LLM in the prompt of turn 2.  (The replacement is done by mutating the caller's last message dict,
which additionally changes the history cache key, so the cached events are not even found again.)

Exits 1 when the violation reproduces, 0 if no LLM prompt ever contains the text the rail removed.
"""
import sys, argparse, logging, hashlib, copy

ap = argparse.ArgumentParser()
ap.add_argument("--root", default="/repo")
args = ap.parse_args()
sys.path.insert(0, args.root)
logging.disable(logging.CRITICAL)

from typing import List
from nemoguardrails import RailsConfig, LLMRails
from nemoguardrails.embeddings.providers.base import EmbeddingModel
from nemoguardrails.embeddings.providers import register_embedding_provider
from tests.utils import FakeLLM


class FakeHash(EmbeddingModel):
    engine_name = "fakehash"

    def __init__(self, embedding_model=None, **kw):
        self.model = embedding_model
        self.embedding_size = 16

    def encode(self, documents: List[str]):
        return [[b / 255.0 for b in hashlib.sha256(d.encode()).digest()[:16]] for d in documents]

    async def encode_async(self, documents):
        return self.encode(documents)


register_embedding_provider(FakeHash, "fakehash")


class RecLLM(FakeLLM):
    prompts: list = []

    async def _acall(self, prompt, stop=None, run_manager=None, **kw):
        self.prompts.append(prompt)
        return await super()._acall(prompt, stop, run_manager, **kw)

    def _call(self, prompt, stop=None, run_manager=None, **kw):
        self.prompts.append(prompt)
        return super()._call(prompt, stop, run_manager, **kw)


YAML = """
passthrough: true
models:
  - type: main
    engine: fake
    model: fake
  - type: embeddings
    engine: fakehash
    model: x
rails:
  input:
    flows:
      - mask ssn on input
"""

COLANG = """
define subflow mask ssn on input
  $user_message = execute mask_ssn(text=$user_message)
"""

SSN = "123-45-6789"


async def mask_ssn(text):
    return text.replace(SSN, "<SSN>")


cfg = RailsConfig.from_content(colang_content=COLANG, yaml_content=YAML)
llm = RecLLM(responses=["Noted.", "I cannot tell.", "x"])
llm.prompts = []
app = LLMRails(cfg, llm=llm)
app.register_action(mask_ssn, "mask_ssn")

# The application keeps the conversation as the user typed it and sends it with every request.
history = [{"role": "user", "content": "my ssn is %s" % SSN}]
reply1 = app.generate(messages=copy.deepcopy(history))
print("turn 1 reply :", reply1)
print("turn 1 prompt:", repr(llm.prompts[-1]))
turn1_leak = SSN in llm.prompts[-1]

history += [reply1, {"role": "user", "content": "what did I just tell you?"}]
n = len(llm.prompts)
reply2 = app.generate(messages=copy.deepcopy(history))
print("turn 2 reply :", reply2)
for p in llm.prompts[n:]:
    print("turn 2 prompt:", repr(p))
turn2_leak = any(SSN in p for p in llm.prompts[n:])

print("\nexpected: the rail rewrote message 1 to 'my ssn is <SSN>'; no prompt sent to the LLM (turn 1 or any"
      " later turn) contains the original text")
if turn1_leak or turn2_leak:
    print("ACTUAL  : the unmasked text of message 1 is part of the LLM prompt of turn %s -> VIOLATION"
          % ("1" if turn1_leak else "2"))
    sys.exit(1)
print("ACTUAL  : every LLM prompt contains only the rewritten text -> OK")
sys.exit(0)
