#!/usr/bin/env python
"""C01h2-H3: Colang 1.0 - RunnableRails wrapping a chain/runnable (`RunnableRails(config) | chain`,
`RunnableRails(config, runnable=chain)`): when an input rail rewrites `$user_message` (e.g. masks PII),
the wrapped chain - i.e. the generation step with its LLM prompt - still receives the ORIGINAL text.

RunnableRails stores the raw input in the context variable `$passthrough_input` before the rails run and
`passthrough_fn` (runnable_rails.py:_init_passthrough_fn) invokes the wrapped runnable with exactly that
value; the (possibly rewritten) `$user_message` is never written back into it.  The LLM-only passthrough paths
in actions/llm/generation.py explicitly do honour the rewritten text ("even in passthrough mode, input rails
can still alter the input").

Exits 1 when the violation reproduces, 0 if the chain only sees the rewritten text.
"""
import sys, argparse, logging, hashlib

ap = argparse.ArgumentParser()
ap.add_argument("--root", default="/repo")
args = ap.parse_args()
sys.path.insert(0, args.root)
logging.disable(logging.CRITICAL)

from typing import List
from langchain_core.runnables import RunnableLambda
from nemoguardrails import RailsConfig
from nemoguardrails.embeddings.providers.base import EmbeddingModel
from nemoguardrails.embeddings.providers import register_embedding_provider
from nemoguardrails.integrations.langchain.runnable_rails import RunnableRails
from tests.utils import FakeLLM


class FakeHash(EmbeddingModel):
    engine_name = "fakehash"

    def __init__(self, embedding_model=None, **kw):
        self.model = embedding_model
        self.embedding_size = 16

    def encode(self, documents: List[str]):
        return [[b / 255.0 for b in hashlib.sha256(d.encode()).digest()[:16]] for d in documents]

    async def encode_async(self, documents):
        return self.encode(documents)


register_embedding_provider(FakeHash, "fakehash")

YAML = """
models:
  - type: main
    engine: fake
    model: fake
  - type: embeddings
    engine: fakehash
    model: x
rails:
  input:
    flows:
      - mask ssn on input
"""

COLANG = """
define subflow mask ssn on input
  $user_message = execute mask_ssn(text=$user_message)
"""

SSN = "123-45-6789"


rewrites = []


async def mask_ssn(text):
    new_text = text.replace(SSN, "<SSN>")
    rewrites.append((text, new_text))
    return new_text


def build():
    cfg = RailsConfig.from_content(colang_content=COLANG, yaml_content=YAML)
    seen = []

    def chain(inp):
        # stands for `prompt | llm | parser`: whatever arrives here is put into the LLM prompt
        seen.append(inp)
        return {"output": "ok"} if isinstance(inp, dict) else "ok"

    guarded = RunnableRails(cfg, llm=FakeLLM(responses=["unused"])) | RunnableLambda(chain)
    guarded.rails.register_action(mask_ssn, "mask_ssn")
    return guarded, seen


violation = False

guarded, seen = build()
out = guarded.invoke({"input": "my ssn is %s, remember it" % SSN})
print("[dict input]   chain received:", seen, "->", out)
if any(SSN in str(x) for x in seen):
    violation = True

guarded, seen = build()
out = guarded.invoke("my ssn is %s, remember it" % SSN)
print("[string input] chain received:", seen, "->", out)
if any(SSN in str(x) for x in seen):
    violation = True

print("rewrites done by the input rail:", rewrites)
print("\nexpected: the input rail rewrote the message to 'my ssn is <SSN>, remember it'; every later stage,"
      " including the wrapped chain (generation), sees only the rewritten text")
if violation:
    print("ACTUAL  : the wrapped chain was invoked with the original, unmasked text -> VIOLATION")
    sys.exit(1)
print("ACTUAL  : the wrapped chain only saw the rewritten text -> OK")
sys.exit(0)
