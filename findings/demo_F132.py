"""C12h2-H1: `break` / `continue` outside of a loop is accepted by the Colang 2.x loader and
stays in the compiled flow as a Break/Continue element without any loop-exit target.

Exits 1 when the violation reproduces, 0 when the behaviour is correct (the loader rejects
the flow, or no unbound Break/Continue element remains in the compiled flow).
"""
import argparse
import logging
import sys

parser = argparse.ArgumentParser()
parser.add_argument("--root", default="/repo")
args = parser.parse_args()
sys.path.insert(0, args.root)
logging.disable(logging.CRITICAL)

from nemoguardrails.colang import parse_colang_file  # noqa: E402
from nemoguardrails.colang.v2_x.lang.colang_ast import Break, Continue  # noqa: E402
from nemoguardrails.colang.v2_x.runtime.flows import State  # noqa: E402
from nemoguardrails.colang.v2_x.runtime.runtime import (  # noqa: E402
    create_flow_configs_from_flow_list,
)
from nemoguardrails.colang.v2_x.runtime.statemachine import (  # noqa: E402
    InternalEvent,
    initialize_state,
    run_to_completion,
)

SOURCES = {
    "break at flow level": """
flow main
  match Start()
  break
  send Reached(where="after break")
  match Never()
""",
    "continue inside if (no loop)": """
flow main
  match Start()
  if True
    continue
  send Reached(where="after continue")
  match Never()
""",
    "break inside when (no loop)": """
flow helper
  match Go()

flow main
  match Start()
  when helper
    break
    send Reached(where="after break in when")
  else
    send Reached(where="else")
  match Never()
""",
}

violations = 0
for name, source in SOURCES.items():
    print(f"--- {name}")
    try:
        flows = parse_colang_file(
            filename="", content=source, include_source_mapping=True, version="2.x"
        )["flows"]
        state = State(
            flow_states={}, flow_configs=create_flow_configs_from_flow_list(flows)
        )
        initialize_state(state)
    except Exception as e:  # the correct behaviour: the loader rejects the flow
        print(f"loader rejected the flow: {type(e).__name__}: {e}")
        continue

    config = state.flow_configs["main"]
    unbound = [
        (idx, type(el).__name__)
        for idx, el in enumerate(config.elements)
        if isinstance(el, (Break, Continue))
        and (el.label is None or el.label not in config.element_labels)
    ]
    print("loader accepted the flow")
    print(
        "compiled Break/Continue elements without a loop-exit target "
        f"(index, type): {unbound}"
    )

    # Show what the statement does at runtime: nothing, the next statement is executed.
    run_to_completion(
        state, InternalEvent(name="StartFlow", arguments={"flow_id": "main"})
    )
    run_to_completion(state, {"type": "Start"})
    out = list(state.outgoing_events)
    run_to_completion(state, {"type": "Go"})
    out += list(state.outgoing_events)
    reached = [e.get("where") for e in out if e["type"] == "Reached"]
    print(f"statements executed after the break/continue: {reached}")

    if unbound:
        violations += 1

print()
print(
    "EXPECTED: a flow with `break`/`continue` outside of a `while` loop is rejected by the "
    "loader (ColangSyntaxError), or at least no Break/Continue element without a target "
    "label is left in FlowConfig.elements after initialize_state."
)
if violations:
    print(
        f"ACTUAL: {violations} of {len(SOURCES)} flows were accepted and compiled with a "
        "Break/Continue(label=None) element: the loop-exit jump has no target, at runtime "
        "the statement is silently skipped."
    )
    sys.exit(1)
print("ACTUAL: behaviour is correct.")
sys.exit(0)
