"""F4 (C03): Colang 2 rails with positive polarity pass when their action fails.
For each of the five flows: the action raises, and the guarded text goes through.
exit 1 = at least one reproduced; prints one line per flow."""
import sys, os
sys.path.insert(0, os.path.dirname(__file__))
from _v2chat import Chat
from nemoguardrails.actions import action

def mk(name):
    @action(name=name)
    async def boom(**kw):
        raise RuntimeError("rail backend down")
    return boom

CASES = [
 ("jailbreak detection heuristics", "input", "JailbreakDetectionHeuristicsAction", "nemoguardrails.library.jailbreak_detection", ""),
 ("detect sensitive data on input", "input", "DetectSensitiveDataAction", "nemoguardrails.library.sensitive_data_detection", ""),
 ("detect sensitive data on output", "output", "DetectSensitiveDataAction", "nemoguardrails.library.sensitive_data_detection", ""),
 ("detect sensitive data on retrieval", "input", "DetectSensitiveDataAction", "nemoguardrails.library.sensitive_data_detection", ""),
 ("self check hallucination", "output", "SelfCheckHallucinationAction", "nemoguardrails.library.hallucination", "  global $check_hallucination\n  $check_hallucination = True\n"),
]
any_rep = False
for flow, kind, act, imp, pre in CASES:
    co = """
import core
import guardrails
import %s

flow main
  activate t1

flow t1
  user said "SECRET TEXT"
%s  bot say "UNCHECKED ANSWER"

flow %s rails $text
  %s
""" % (imp, pre, kind, flow)
    chat = Chat(co)
    chat.app.register_action(mk(act), act)
    try:
        msgs, ev = chat.say("SECRET TEXT")
    except Exception as e:
        msgs = ["<raised %s>" % type(e).__name__]
    rep = "UNCHECKED ANSWER" in msgs
    any_rep |= rep
    print("F4 %-36s action raises -> uttered %s  reproduced=%s" % (flow, msgs, rep))
sys.exit(1 if any_rep else 0)
