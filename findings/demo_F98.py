#!/usr/bin/env python
"""C14h2-H1: `when ... else when ...` - the LAST matching branch is taken, not the first.

A dialog flow asks a question and branches on the answer with `when user yes` and a
catch-all `else when user ...`.  Like if/elif in a structured program, the `else when`
branch must only be taken when the `when` branch did not match.  The Colang 1.0 runtime
(nemoguardrails/colang/v1_0/runtime/flows.py, compute_next_state) loops over all the
branch heads and keeps the last one that matches, so for the intent `yes` it follows
the `else when user ...` branch.
"""
import argparse
import logging
import sys

parser = argparse.ArgumentParser()
parser.add_argument("--root", default="/repo")
args = parser.parse_args()
sys.path.insert(0, args.root)
logging.disable(logging.CRITICAL)

from nemoguardrails import RailsConfig  # noqa: E402
from nemoguardrails.colang.v1_0.runtime.flows import compute_next_steps  # noqa: E402
from nemoguardrails.colang.v1_0.runtime.runtime import RuntimeV1_0  # noqa: E402

COLANG = """
define flow confirm order
  user request order
  bot ask confirmation
  when user express agreement
    bot confirm order placed
  else when user ...
    bot inform order cancelled
  bot ask anything else
"""


def flow_configs_for(config):
    """Builds the flow configs exactly as RuntimeV1_0 does (no LLM needed)."""
    runtime = RuntimeV1_0.__new__(RuntimeV1_0)
    runtime.config = config
    runtime.flow_configs = {}
    for flow in config.flows:
        runtime._load_flow_config(flow)
    return runtime.flow_configs


def bot_intents(steps):
    return [s["intent"] for s in steps if s["type"] == "BotIntent"]


def main():
    config = RailsConfig.from_content(colang_content=COLANG, yaml_content="models: []\n")
    flow_configs = flow_configs_for(config)

    history = [{"type": "UserIntent", "intent": "request order"}]
    steps = compute_next_steps(history, flow_configs, config, [])
    assert bot_intents(steps) == ["ask confirmation"], steps
    history.extend(steps)

    ok = True
    for answer, expected in [
        ("express agreement", "confirm order placed"),
        ("express denial", "inform order cancelled"),
    ]:
        h = history + [{"type": "UserIntent", "intent": answer}]
        got = bot_intents(compute_next_steps(h, flow_configs, config, []))
        print(f"user {answer!r}: expected next step 'bot {expected}', got {got}")
        if got != [expected]:
            ok = False

    if not ok:
        print("VIOLATION: the `else when user ...` branch was taken although the "
              "earlier `when user express agreement` branch matches the event.")
        return 1
    print("OK: the first matching branch is followed.")
    return 0


if __name__ == "__main__":
    sys.exit(main())
