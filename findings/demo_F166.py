"""C13h3-H2: the indentation of the FIRST line of a Colang 2.x file is invisible to the
indenter (lark's PythonIndenter only measures indentation after a newline token).  Whether
a file whose first statement is indented loads therefore depends on whether a blank line
precedes that statement:

 * a uniformly indented file (accepted by the grammar: `?start: _statements | suite`) with
   two flows is rejected as written, but loads both flows once a blank line is put in front;
 * a file whose first statement is indented deeper than the rest loads as written, but is
   rejected once a blank line is put in front.
"""
import argparse
import logging
import os
import re
import sys
import tempfile
import warnings

ap = argparse.ArgumentParser()
ap.add_argument("--root", default="/repo")
args = ap.parse_args()
sys.path.insert(0, args.root)
logging.disable(logging.CRITICAL)
warnings.simplefilter("ignore")

from nemoguardrails import RailsConfig  # noqa: E402
from nemoguardrails.rails.llm.config import ColangParsingError  # noqa: E402

YAML = 'colang_version: "2.x"\nmodels: []\n'


def load(colang: str):
    with tempfile.TemporaryDirectory() as d:
        with open(os.path.join(d, "config.yml"), "w") as f:
            f.write(YAML)
        with open(os.path.join(d, "main.co"), "w") as f:
            f.write(colang)
        try:
            config = RailsConfig.from_path(d)
        except ColangParsingError as e:
            return "error", "ColangParsingError: " + str(e).split("\n")[1][:90]
        except Exception as e:
            return "error", f"{type(e).__name__}: {e}"
        return "flows", [flow.name for flow in config.flows]


CASES = {
    "uniformly indented file with two flows": (
        '  flow a\n    bot say "a"\n  flow b\n    bot say "b"\n'
    ),
    "only the first statement is indented": (
        '    flow a\n      bot say "a"\nflow b\n  bot say "b"\n'
    ),
}
LAYOUTS = {
    "as written": lambda s: s,
    "blank line in front": lambda s: "\n" + s,
    "line of blanks in front": lambda s: "      \n" + s,
}

violated = False
for title, source in CASES.items():
    print(f"--- {title}: {source!r}")
    results = {}
    for layout, fn in LAYOUTS.items():
        results[layout] = load(fn(source))
        print(f"  {layout:<24} -> {results[layout]}")
    kinds = {(r[0], tuple(r[1]) if r[0] == "flows" else None) for r in results.values()}
    if len(kinds) != 1:
        violated = True

print()
print("expected: a blank line in front of the first statement does not change the outcome")
if violated:
    print("observed: the outcome (flows vs. ColangParsingError) flips with the blank line,")
    print("          because only then the indentation of the first statement is measured")
    sys.exit(1)
print("observed: same outcome for every layout")
sys.exit(0)
