"""C13h4-H2: trailing white space (a form feed) after `...` makes a Colang 2.x file unloadable.

Commits 3f7687c / 20cb051 made tab and form feed ignorable white space for the Colang 2.x lexer
(`%ignore /[\t \f]+/`, `_NEWLINE: (/\r?\n[\t \f]*/)+`), so `pass<FF>` or `match X()<FF>` parse like
`pass` / `match X()`.  The textual pre-expansion of `...` (commit 1e8aa70) anchors its pattern with
`[ \t]*(#.*)?$` and so does not know about the form feed: `  ...<FF>` is not expanded.
"""
import argparse
import json
import logging
import os
import sys
import tempfile
import warnings

ap = argparse.ArgumentParser()
ap.add_argument("--root", default="/repo")
args = ap.parse_args()
sys.path.insert(0, args.root)
logging.disable(logging.CRITICAL)
warnings.filterwarnings("ignore")

from nemoguardrails import RailsConfig  # noqa: E402
from nemoguardrails.colang.v2_x.lang.utils import dataclass_to_dict  # noqa: E402

POS = {"_source", "source_code", "file_info"}


def norm(o):
    o = dataclass_to_dict(o)
    if isinstance(o, dict):
        return {k: norm(v) for k, v in o.items() if k not in POS}
    if isinstance(o, (list, tuple)):
        return [norm(v) for v in o]
    return o


def load(colang):
    d = tempfile.mkdtemp()
    with open(os.path.join(d, "config.yml"), "w") as f:
        f.write('colang_version: "2.x"\n')
    with open(os.path.join(d, "main.co"), "w") as f:
        f.write(colang)
    try:
        cfg = RailsConfig.from_path(d)
    except Exception as e:  # noqa
        lines = str(e).splitlines()
        return "error", f"{type(e).__name__}: {lines[1] if len(lines) > 1 else e}"
    return "ok", json.dumps(norm(cfg.flows), sort_keys=True, default=str)


failed = False
# control: the form feed is ignorable trailing white space after other statements
ctl_a = load("flow main\n  match UtteranceUserActionFinished()\n  pass\n")
ctl_b = load("flow main\n  match UtteranceUserActionFinished() \f\n  pass\f\n")
print("control: `match X() <FF>` / `pass<FF>` parse like without the form feed:", ctl_a == ctl_b and ctl_a[0] == "ok")

plain = load("flow main\n  match UtteranceUserActionFinished()\n  ...\n")
for label, text in [
    ("`...<FF>`", "flow main\n  match UtteranceUserActionFinished()\n  ...\f\n"),
    ("`... <FF> `", "flow main\n  match UtteranceUserActionFinished()\n  ... \f \n"),
]:
    r = load(text)
    same = r == plain
    print(f"{label}: {r[0]} {'' if r[0] == 'ok' else r[1]}")
    if plain[0] == "ok" and ctl_a == ctl_b and not same:
        print("   EXPECTED: the same flows as with a bare `...` (trailing white space is meaningless)")
        print("   GOT     : the `...` statement is not expanded and the file is rejected")
        failed = True

if failed:
    print("VIOLATION: trailing white space after `...` changed the result of loading the file")
    sys.exit(1)
print("OK")
sys.exit(0)
