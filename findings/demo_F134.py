"""C04h2-H4: `match $flow_ref.Finished()` never matches the Finished event of that very flow
instance when the flow was started with a comparison pattern (less_than(), greater_than(), ...)
as a parameter.

The reference event of `$flow_ref.Finished()` is built by FlowState._create_out_event and
contains all the arguments of the instance (parameters the statement does not mention). The
real FlowFinished event contains the same objects. `_compute_arguments_dict_matching_score`
then evaluates `ref_args.compare(args)` with the ComparisonExpression itself as the value,
`compare` raises ColangValueError ("Comparing variables of different types"), which is turned
into "no match". `await flow(...)` is `start ... as $ref` + `match $ref.Finished()`, so the
awaiting flow hangs forever although the awaited flow finished. A regex() parameter (the
documented `user said regex(...)` style) works.
"""
import argparse, contextlib, io, logging, sys

parser = argparse.ArgumentParser()
parser.add_argument("--root", default="/repo")
ROOT = parser.parse_args().root
sys.path.insert(0, ROOT)
logging.disable(logging.CRITICAL)

from nemoguardrails.colang.v2_x.runtime.statemachine import (  # noqa: E402
    InternalEvent,
    run_to_completion,
)
from tests.utils import _init_state  # noqa: E402


def start(colang):
    """Parse the Colang 2.x source, start the main flow and return the state."""
    with contextlib.redirect_stdout(io.StringIO()):
        state = _init_state(colang)
    return run_to_completion(
        state, InternalEvent(name="StartFlow", arguments={"flow_id": "main"})
    )


def feed(state, event):
    """Process one event, return (state, list of scripts the flows uttered)."""
    state = run_to_completion(state, event)
    return state, [
        e.get("script")
        for e in state.outgoing_events
        if e["type"] == "StartUtteranceBotAction"
    ]

TEMPLATE = """
flow temperature reached $threshold
  match TemperatureEvent(value=$threshold)
  send StartUtteranceBotAction(script="child passed its match")

flow main
  await temperature reached(threshold=%s)
  send StartUtteranceBotAction(script="Success")
"""

bad = False
for title, arg in [("control: threshold=40", "40"), ("control: threshold=regex(\"^4\")", 'regex("^4")'),
                   ("threshold=greater_than(30)", "greater_than(30)")]:
    state = start(TEMPLATE % arg)
    state, said1 = feed(state, {"type": "TemperatureEvent", "value": 20})
    state, said2 = feed(state, {"type": "TemperatureEvent", "value": 40})
    child = [fs.status.name for fs in state.flow_states.values() if fs.flow_id == "temperature reached"]
    print(title)
    print(f"    after TemperatureEvent(value=20): {said1}")
    print(f"    after TemperatureEvent(value=40): {said2}; status of the awaited flow instance(s): {child}")
    ok = "Success" in said2
    print(f"    the awaited flow finished, expected main to advance past the await: it advanced: {ok}")
    if not ok:
        if title.startswith("control"):
            print("control failed, the harness does not work")
            sys.exit(2)
        # also later events of the instance never help: main is stuck
        bad = True

if bad:
    print("\nVIOLATION: the statement that refers to the flow instance did not match the Finished event of that instance")
    sys.exit(1)
print("\nthe Finished event of the referenced instance was matched")
sys.exit(0)
