"""C05-H3: conflict resolution works through the interaction loops one after the other, but
does not re-check the heads of a later loop after flows were aborted while resolving an
earlier loop. A flow of loop "other" that was just aborted (its parent lost in the main
loop) is still picked as the winner of its own loop: its action is started although the
flow is dead, and the action is never stopped (orphan action).

exit 1 = violation reproduced, exit 0 = behaviour correct."""
import argparse, contextlib, io, logging, random, sys, traceback

ap = argparse.ArgumentParser()
ap.add_argument("--root", default="/repo")
ROOT = ap.parse_args().root
sys.path.insert(0, ROOT)
logging.disable(logging.CRITICAL)

from nemoguardrails.colang.v2_x.runtime.flows import InternalEvent  # noqa: E402
from nemoguardrails.colang.v2_x.runtime.statemachine import run_to_completion  # noqa: E402
from tests.utils import _init_state  # noqa: E402


def init(colang):
    """Parse the Colang 2.x source, create the state and start the main flow."""
    with contextlib.redirect_stdout(io.StringIO()):
        state = _init_state(colang)
    return run_to_completion(
        state, InternalEvent(name="StartFlow", arguments={"flow_id": "main"})
    )


def brief(events):
    keep = ("type", "script", "action_uid")
    return [{k: e[k] for k in keep if k in e} for e in events]


def status(state, flow_id):
    return [fs.status.name for fs in state.flow_states.values() if fs.flow_id == flow_id]

SRC = """
@loop("other")
flow c
  match Trigger()
  start UtteranceBotAction(script="c")
  match Never()

flow p
  start c
  match Trigger()
  start UtteranceBotAction(script="p")
  match Never()

flow q
  match Trigger(kind="x")
  start UtteranceBotAction(script="q")
  match Never()

flow main
  start q
  start p
  match Never()
"""
random.seed(0)
st = init(SRC)
st = run_to_completion(st, {"type": "Trigger", "kind": "x"})
out = brief(st.outgoing_events)
print("outgoing events :", out)
for f in ("q", "p", "c"):
    print(f"flow {f}: {status(st, f)}")
started = {e["script"]: e["action_uid"] for e in out if e["type"] == "StartUtteranceBotAction"}
stopped = {e["action_uid"] for e in out if e["type"] == "StopUtteranceBotAction"}
print()
print("EXPECTED: main loop: q (exact match) wins over p; loop 'other' holds only c, which does not compete")
print("          with q/p. Either c proceeds with its action 'c', or (because its parent p failed) c is")
print("          aborted and then must not start an action. An action may only be running for a live flow.")
problems = []
c_alive = status(st, "c") == ["STARTED"]
if "c" in started and started["c"] not in stopped and not c_alive:
    act = st.actions.get(started["c"])
    problems.append(
        "action 'c' was started for flow c AFTER c had been aborted (c is STOPPED), and it is never "
        f"stopped; state.actions says status={act.status.name if act else 'missing'}"
    )
if "q" not in started or status(st, "q") != ["STARTED"]:
    problems.append("q did not win the main loop")
if problems:
    print("VIOLATION:")
    for p in problems:
        print("  -", p)
    sys.exit(1)
print("OK: behaviour correct")
sys.exit(0)
