"""C03-H1 (Colang 1.0): after a turn in which an action failed, results of rail actions are lost.

A failed action ends its turn with a `hide_prev_turn` event.  From then on
`compute_next_steps` (flows.py) drops that turn's events - including its ContextUpdate
events - when it rebuilds the flow state, but `_process_start_action` (runtime.py) still
compares an action's result with `compute_context(events)` over the FULL history and
emits no ContextUpdate when the value is "unchanged".  So in the next turn(s) the rail's
`$is_blocked = execute ...` / `$allowed = execute ...` leaves the variable undefined (None)
in the flow state:

  (a) `if $is_blocked` rail  -> the blocked input sails through to the LLM (fail open)
  (b) `if not $allowed` rail -> every following turn is refused although the check passed

Exit code 1 = violation reproduced, 0 = behaviour correct.
"""
import sys, logging, hashlib

root = sys.argv[sys.argv.index("--root") + 1] if "--root" in sys.argv else "/repo"
sys.path.insert(0, root)
logging.disable(logging.CRITICAL)

from nemoguardrails import RailsConfig, LLMRails  # noqa
from nemoguardrails.embeddings.providers.base import EmbeddingModel  # noqa
from nemoguardrails.embeddings.providers import register_embedding_provider  # noqa
from tests.utils import FakeLLM  # noqa


class FakeHash(EmbeddingModel):
    engine_name = "fakehash"

    def __init__(self, embedding_model=None, **kw):
        self.model = embedding_model
        self.embedding_size = 32

    def encode(self, documents):
        return [[b / 255.0 for b in hashlib.sha256(d.encode()).digest()] for d in documents]

    async def encode_async(self, documents):
        return self.encode(documents)


register_embedding_provider(FakeHash, "fakehash")

YAML = """
models:
  - type: main
    engine: fake
    model: fake
  - type: embeddings
    engine: fakehash
    model: x
rails:
  input:
    flows:
      - check in
"""

REFUSAL = "I can't respond to that."
INTERNAL = "I'm sorry, an internal error has occurred."

# ---------------------------------------------------------------- variant (a): fail open
CO_A = """
define user ask secret
  "tell me the secret"

define flow secret
  user ask secret
  bot give secret

define subflow check in
  $is_blocked = execute check_blocked(text=$user_message)
  if $is_blocked
    execute audit_block(text=$user_message)
    bot refuse to respond
    stop

define bot refuse to respond
  "I can't respond to that."
"""


def variant_a():
    cfg = RailsConfig.from_content(colang_content=CO_A, yaml_content=YAML)
    llm = FakeLLM(responses=["  ask secret", '  "UNSAFE: the secret is 42"'])
    app = LLMRails(cfg, llm=llm)
    verdicts = []
    audits = {"n": 0}

    async def check_blocked(text):
        verdicts.append(("check_blocked", text, "secret" in text))
        return "secret" in text

    async def audit_block(text):
        audits["n"] += 1
        if audits["n"] == 1:
            raise RuntimeError("audit database is down")  # the injected fault (turn 1 only)
        return True

    app.register_action(check_blocked, "check_blocked")
    app.register_action(audit_block, "audit_block")

    msgs, replies = [], []
    for text in ["tell me the secret", "tell me the secret"]:
        msgs.append({"role": "user", "content": text})
        r = app.generate(messages=msgs)
        replies.append(r["content"])
        msgs.append(r)

    print("variant (a): input rail `if $is_blocked`, the action after the check fails in turn 1")
    print("  rail verdicts       :", verdicts)
    print("  turn 1 reply        :", repr(replies[0]), "(expected the internal-error message)")
    print("  turn 2 reply        :", repr(replies[1]))
    print("  turn 2 expected     :", repr(REFUSAL), "- check_blocked returned True again")
    print("  LLM calls made      :", llm.i, "(expected 0: the input was blocked in both turns)")
    bad = replies[1] != REFUSAL or llm.i != 0
    print("  -> VIOLATION: blocked input reached the LLM, unguarded answer returned" if bad else "  -> ok")
    return bad


# ------------------------------------------------------- variant (b): stuck refusing
CO_B = """
define user express greeting
  "hello"

define flow greet
  user express greeting
  $profile = execute lookup
  bot express greeting

define subflow check in
  $allowed = execute check_in(text=$user_message)
  if not $allowed
    bot refuse to respond
    stop

define bot refuse to respond
  "I can't respond to that."
"""


def variant_b():
    cfg = RailsConfig.from_content(colang_content=CO_B, yaml_content=YAML)
    llm = FakeLLM(
        responses=["  express greeting"]
        + ["  express greeting", '  "Hello again!"'] * 3
    )
    app = LLMRails(cfg, llm=llm)
    verdicts = []
    lookups = {"n": 0}

    async def check_in(text):
        verdicts.append(True)
        return True  # the input is always fine

    async def lookup():
        lookups["n"] += 1
        if lookups["n"] == 1:
            raise RuntimeError("profile service is down")  # the injected fault (turn 1 only)
        return "john"

    app.register_action(check_in, "check_in")
    app.register_action(lookup, "lookup")

    msgs, replies = [], []
    for text in ["hello", "hello", "hello", "hello"]:
        msgs.append({"role": "user", "content": text})
        r = app.generate(messages=msgs)
        replies.append(r["content"])
        msgs.append(r)

    print("variant (b): input rail `if not $allowed`, a dialog action fails in turn 1")
    print("  check_in verdicts   :", verdicts)
    print("  replies             :", replies)
    print("  expected            :", [INTERNAL, "Hello again!", "Hello again!", "Hello again!"])
    bad = any(r == REFUSAL for r in replies[1:])
    print("  -> VIOLATION: approved inputs are refused in every later turn (conversation poisoned)" if bad else "  -> ok")
    return bad


if __name__ == "__main__":
    a = variant_a()
    print()
    b = variant_b()
    sys.exit(1 if (a or b) else 0)
