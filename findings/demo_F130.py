"""C05h2-H4: a flow that continues in the `else` branch of a `when` block (its awaited flow
failed on the event) competes with NO matching scores at all ([]), is therefore rated like
a chain of perfect matches and beats a flow whose match of the very same event was MORE
specific than the match that led to the else branch.

Event: Ev(a=1, b=2)
  flow u   : match Ev(a=1)            -> score 0.9   -> wants action "U"
  flow t   : when sub / else ...      sub: match Ev() -> score 0.81, then `abort`
             -> t's else branch wants action "T else"; the chain behind it is [0.81]
Expected (property C05): the most specific match wins -> "U" is started, t fails.
"""
import argparse
import logging
import sys

ap = argparse.ArgumentParser()
ap.add_argument("--root", default="/repo")
args = ap.parse_args()
sys.path.insert(0, args.root)
logging.disable(logging.CRITICAL)

import nemoguardrails.colang.v2_x.runtime.statemachine as sm  # noqa: E402
from nemoguardrails.colang import parse_colang_file  # noqa: E402
from nemoguardrails.colang.v2_x.runtime.flows import InternalEvent, State  # noqa: E402
from nemoguardrails.colang.v2_x.runtime.runtime import (  # noqa: E402
    create_flow_configs_from_flow_list,
)

# Only for display: print the scores the conflict resolution works with
_orig = sm._resolve_action_conflicts


def _traced(state, heads):
    if len(heads) > 1:
        print(
            "   competing heads:",
            [
                (state.flow_states[h.flow_state_uid].flow_id, h.matching_scores)
                for h in heads
            ],
        )
    return _orig(state, heads)


sm._resolve_action_conflicts = _traced

U_AND_MAIN = """
flow u
  match Ev(a=1)
  send StartUtteranceBotAction(script="U")
  match Never()

flow main
  start t
  start u
  match Never()
"""

CONTROL = (
    """
flow t
  match Ev()
  send StartUtteranceBotAction(script="T direct")
  match Never()
"""
    + U_AND_MAIN
)

ELSE_BRANCH = (
    """
flow sub
  match Ev()
  abort

flow t
  when sub
    send StartUtteranceBotAction(script="sub finished")
  else
    send StartUtteranceBotAction(script="T else")
  match Never()
"""
    + U_AND_MAIN
)


def run(src):
    cfg = create_flow_configs_from_flow_list(
        parse_colang_file(
            filename="", content=src, include_source_mapping=True, version="2.x"
        )["flows"]
    )
    st = State(flow_states=[], flow_configs=cfg)
    sm.initialize_state(st)
    st = sm.run_to_completion(
        st, InternalEvent(name="StartFlow", arguments={"flow_id": "main"})
    )
    st = sm.run_to_completion(st, {"type": "Ev", "a": 1, "b": 2})
    outs = [(e["type"], e.get("script")) for e in st.outgoing_events]
    stat = {
        fs.flow_id: fs.status.name
        for fs in st.flow_states.values()
        if fs.flow_id in ("t", "u")
    }
    return outs, stat


print("control: t matches Ev() directly (0.81) against u's Ev(a=1) (0.9)")
outs, stat = run(CONTROL)
print("   outgoing=%s status=%s" % (outs, stat))

print("else branch: t reaches its action through `when sub ... else` (sub matched Ev() with 0.81 and aborted)")
outs, stat = run(ELSE_BRANCH)
print("   outgoing=%s status=%s" % (outs, stat))

print()
print("expected: u (more specific, 0.9 > 0.81) wins: outgoing == [StartUtteranceBotAction 'U'], t fails")
if outs != [("StartUtteranceBotAction", "U")] or stat.get("u") != "STARTED":
    print(
        "observed: t competes with matching_scores [] (rated as perfect), 'T else' is "
        "started and the more specific flow u is aborted"
    )
    print("VIOLATION reproduced")
    sys.exit(1)
print("observed: behaviour as expected")
sys.exit(0)
