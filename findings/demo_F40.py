"""C08-H4: a flow parameter (or any local variable) named `$system` or `$self` never
yields the bound argument value: every expression in the callee sees the runtime's own
objects instead (`$system` -> {"state": <State>, "config": <RailsConfig>}, `$self` ->
the FlowState). The parser accepts these names, the argument is bound correctly into
FlowState.arguments/context, but _get_eval_context() overwrites the user's variables
with `context.update({"system": ...}); context.update({"self": flow_state})` on every
evaluation. `return $system` even hands the whole State/RailsConfig to the caller.
"""
import argparse, sys, logging, os

ap = argparse.ArgumentParser()
ap.add_argument("--root", default="/repo")
ARGS = ap.parse_args()
sys.path.insert(0, ARGS.root)
logging.disable(logging.CRITICAL)

from nemoguardrails import RailsConfig, LLMRails  # noqa: E402
from tests.utils import FakeLLM  # noqa: E402

YAML = 'colang_version: "2.x"\nmodels: []\n'
DROP = ("uid", "event_created_at", "source_uid")


def run(colang, inputs=()):
    """Drive a Colang 2.x config through the public LLMRails.process_events API.
    Returns the list of all outgoing events (dicts) and the final state."""
    cfg = RailsConfig.from_content(colang_content=colang, yaml_content=YAML)
    app = LLMRails(cfg, llm=FakeLLM(responses=[]))
    app.runtime.disable_async_execution = True
    out, state = app.process_events([], None)
    allout = list(out)
    for ev in inputs:
        out, state = app.process_events([ev], state)
        allout += out
    return [{k: v for k, v in e.items() if k not in DROP} for e in allout], state


def find(events, type_, **kw):
    return [e for e in events if e["type"] == type_ and all(e.get(k) == v for k, v in kw.items())]

TEMPLATE = '''
flow llm reply ${p} $user="hi"
  $t = type(${p})
  $same = ${p} == "You are a pirate."
  send Callee(param_type=$t, equals_argument=$same)
  return ${p}

flow caller
  $r = {call}
  $rt = type($r)
  $ok = $r == "You are a pirate."
  send CallerDone(returned_type=$rt, returned_equals_argument=$ok)

flow main
  match Go()
  start caller
  match Never()
'''

bad = []
for p in ["prompt", "system", "self"]:
    for form, call in [
        ("positional", 'await llm reply "You are a pirate."'),
        ("named", f'await llm reply ${p}="You are a pirate."'),
    ]:
        ev, st = run(TEMPLATE.replace("{p}", p).replace("{call}", call), [{"type": "Go"}])
        callee = find(ev, "Callee")
        done = find(ev, "CallerDone")
        bound = [fs.arguments.get(p) for fs in st.flow_states.values() if fs.flow_id == "llm reply"]
        print(f"parameter ${p:7s} {form:10s}: FlowState.arguments[{p!r}]={bound} callee sees {callee} caller gets {done}")
        good = (
            callee and callee[0]["param_type"] == "str" and callee[0]["equals_argument"] is True
            and done and done[0]["returned_equals_argument"] is True
        )
        if not good:
            bad.append((p, form))

print("expected: in every row the callee sees a str equal to the argument and returns it")
if bad:
    print("VIOLATION for", bad, ": the parameter does not evaluate to the bound argument value")
    sys.exit(1)
print("OK: no violation")
sys.exit(0)
