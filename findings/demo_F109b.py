"""C11h2-H4: after a long-finished flow instance has been discarded, deactivating a flow that
once shared the activation of that instance fails with a KeyError - the flow stays active.

statemachine.py:
 * A flow `a` that is activated by two flows has ONE reference instance R; R.parent_uid is the
   first activator, the second activator only gets R.uid appended to its child_flow_uids
   (_process_internal_events_without_default_matchers, l. 570-576).
 * When R is finally deactivated (`deactivate a` in the second activator, after the first one
   has ended), _abort_flow() removes R.uid only from the child list of R.parent_uid
   (l. 1613-1620); _release_activation() (l. 1542-1552) only acts for `activated > 1`.
   The second activator keeps the uid of R in its child_flow_uids.
 * _clean_up_state() (l. 462-510) discards R 5 s later, again only cleaning the list of
   R.parent_uid.  The second activator now holds a dangling uid.
 * When the second activator (itself an activated flow) is deactivated, _abort_flow() /
   _finish_flow() do `child_flow = state.flow_states[child_flow_uid]` without a check
   (l. 1568-1569 and l. 1664-1665) -> KeyError.  `activated` has already been decremented,
   the flow is not aborted, the deactivating flow does not advance.

The demo runs the same conversation without pause and with a 5.5 s idle pause.
Exit code 1 = the two runs differ (violation), 0 = same behaviour.
"""
import argparse
import logging
import sys
import time

parser = argparse.ArgumentParser()
parser.add_argument("--root", default="/repo")
args = parser.parse_args()
sys.path.insert(0, args.root)
logging.disable(logging.CRITICAL)

from nemoguardrails import LLMRails, RailsConfig  # noqa: E402
from nemoguardrails.utils import new_event_dict  # noqa: E402
from tests.utils import FakeLLM  # noqa: E402

YAML = 'colang_version: "2.x"\nmodels: []\n'

COLANG = """
import core

flow small talk
  user said "ping"
  bot say "pong"

flow onboarding
  activate small talk
  user said "onboarding done"

flow support mode
  activate small talk
  user said "no small talk"
  deactivate small talk
  user said "help"
  bot say "support here"

flow main
  start onboarding
  activate support mode
  user said "end support"
  deactivate support mode
  bot say "support mode ended"
  match NeverEvent()
"""
SCRIPT = [
    "ping",
    "onboarding done",
    "ping",
    "no small talk",
    "ping",
    "PAUSE",
    "end support",
    "help",
]


class Chat:
    def __init__(self):
        config = RailsConfig.from_content(colang_content=COLANG, yaml_content=YAML)
        self.app = LLMRails(config, llm=FakeLLM(responses=[]))
        self.app.runtime.disable_async_execution = True
        _, self.state = self.app.process_events([], None)

    def say(self, text):
        inp = [{"type": "UtteranceUserActionFinished", "final_transcript": text}]
        msgs = []
        while inp:
            out, self.state = self.app.process_events(inp, self.state)
            inp = []
            for ev in out:
                if ev["type"] == "StartUtteranceBotAction":
                    msgs.append(ev["script"])
                    inp.append(
                        new_event_dict(
                            "UtteranceBotActionFinished",
                            action_uid=ev["action_uid"],
                            is_success=True,
                            final_script=ev["script"],
                        )
                    )
        return msgs


def run(pause):
    chat = Chat()
    result = []
    for item in SCRIPT:
        if item == "PAUSE":
            if pause:
                time.sleep(5.5)
        else:
            result.append((item, chat.say(item)))
    return result


fresh = run(pause=False)
aged = run(pause=True)
print("no idle time   :", fresh)
print("5.5 s idle time:", aged)
print(
    "expected: both runs end with ('end support', ['support mode ended']), ('help', [])"
)
if fresh != aged:
    print("VIOLATION: discarding the finished flow instance changed the later behaviour")
    sys.exit(1)
sys.exit(0)
