#!/usr/bin/env python
"""C16h2-H3: the documented way to supply the bot message for "input and output rails only" /
"output rails only" (docs/user_guides/advanced/generation-options.md: {"role": "bot", ...})
is not understood by the code, which only recognises {"role": "assistant", ...}.

generate_async (nemoguardrails/rails/llm/llmrails.py) moves the last message into `$bot_message`
only if `messages[-1]["role"] == "assistant"`; `_get_events_for_messages` silently drops a "bot"
message.  `run dialog rails` then creates `BotMessage(text=None)`: the output rails run on None
and the call ends in a TypeError (or, with `self check output`, in a refusal of a perfectly fine
message, without the check LLM being asked).

exit 1 = violation reproduced, exit 0 = behaviour correct.
"""
import argparse
import hashlib
import logging
import re
import sys

ap = argparse.ArgumentParser()
ap.add_argument("--root", default="/repo")
args = ap.parse_args()
sys.path.insert(0, args.root)
logging.disable(logging.CRITICAL)

from nemoguardrails import LLMRails, RailsConfig  # noqa: E402
from nemoguardrails.embeddings.providers import register_embedding_provider  # noqa: E402
from nemoguardrails.embeddings.providers.base import EmbeddingModel  # noqa: E402
from tests.utils import FakeLLM  # noqa: E402


class FakeHash(EmbeddingModel):
    engine_name = "fakehash"

    def __init__(self, embedding_model=None, **kwargs):
        self.model = embedding_model
        self.embedding_size = 8

    def encode(self, documents):
        return [
            [b / 255.0 for b in hashlib.sha256(d.encode()).digest()[:8]]
            for d in documents
        ]

    async def encode_async(self, documents):
        return self.encode(documents)


register_embedding_provider(FakeHash, "fakehash")

MODELS = """
models:
  - type: main
    engine: fake
    model: fake
  - type: embeddings
    engine: fakehash
    model: x
"""

# The role that the documentation uses for the supplied bot message.
try:
    doc = open(args.root + "/docs/user_guides/advanced/generation-options.md").read()
    section = doc[doc.index("### Input and Output Rails Only"):doc.index("## Limitations")]
    roles = re.findall(r'"role":\s*"(\w+)"', section)
    print("roles used by the documentation for input+output / output only:", roles)
    BOT_ROLE = [r for r in roles if r != "user"][0]
except (OSError, ValueError, IndexError):
    # the documentation as shipped with the repository under test
    BOT_ROLE = "bot"

failed = False


def check(title, app, messages, rails, expected):
    global failed
    print(f"--- {title}: messages={messages} rails={rails}")
    print(f"    expected reply: {expected!r}")
    try:
        res = app.generate(
            messages=messages,
            options={"rails": rails, "log": {"activated_rails": True}},
        )
        reply = res.response[0]["content"]
        print(f"    got reply     : {reply!r}  rails={[(r.type, r.name, r.stop) for r in res.log.activated_rails]}")
        if reply != expected:
            failed = True
    except Exception as ex:  # noqa
        print(f"    got           : generate() raised {type(ex).__name__}: {ex}")
        failed = True


# A. custom rails that let everything through
config = RailsConfig.from_content(
    colang_content="""
define subflow check input
  $input_checked = True

define subflow check output
  $output_checked = True
""",
    yaml_content=MODELS
    + """
rails:
  input:
    flows:
      - check input
  output:
    flows:
      - check output
""",
)
app = LLMRails(config, llm=FakeLLM(responses=["unexpected"]))
check(
    "docs example 'Input and Output Rails Only'",
    app,
    [{"role": "user", "content": "Some user input."}, {"role": BOT_ROLE, "content": "Some bot output."}],
    ["input", "output"],
    "Some bot output.",
)
check(
    "docs example 'Output Rails Only'",
    app,
    [{"role": "user", "content": ""}, {"role": BOT_ROLE, "content": "Some bot output."}],
    ["output"],
    "Some bot output.",
)

# B. the library `self check output` rail, the checking LLM would answer "No" (= do not block)
config = RailsConfig.from_content(
    colang_content="",
    yaml_content=MODELS
    + """
rails:
  output:
    flows:
      - self check output
prompts:
  - task: self_check_output
    content: "Should this bot message be blocked? {{ bot_response }}"
""",
)
llm = FakeLLM(responses=["No", "No"])
app = LLMRails(config, llm=llm)
check(
    "docs example 'Output Rails Only' with `self check output` (LLM says: allowed)",
    app,
    [{"role": "user", "content": ""}, {"role": BOT_ROLE, "content": "Some bot output."}],
    ["output"],
    "Some bot output.",
)
print("    LLM calls made by the rail:", llm.i, "(expected 1)")

if failed:
    print("\nVIOLATION: with the documented message format the supplied bot message is ignored")
    sys.exit(1)
print("\nOK")
sys.exit(0)
