"""C08-H2: the argument expressions of a flow call are evaluated TWICE in the caller
(once for the generated `send StartFlow(...)`, and again for the generated
`match FlowStarted(...)` that reuses the same argument expressions). If the second
evaluation yields a different value (argument reads a global the callee updates before
its first wait, or uses rand()/randint()/uid()), the callee runs with the first value,
but the caller never matches FlowStarted -> it hangs forever: `$x = await flow` never
receives the returned value.
"""
import argparse, sys, logging, os

ap = argparse.ArgumentParser()
ap.add_argument("--root", default="/repo")
ARGS = ap.parse_args()
sys.path.insert(0, ARGS.root)
logging.disable(logging.CRITICAL)

from nemoguardrails import RailsConfig, LLMRails  # noqa: E402
from tests.utils import FakeLLM  # noqa: E402

YAML = 'colang_version: "2.x"\nmodels: []\n'
DROP = ("uid", "event_created_at", "source_uid")


def run(colang, inputs=()):
    """Drive a Colang 2.x config through the public LLMRails.process_events API.
    Returns the list of all outgoing events (dicts) and the final state."""
    cfg = RailsConfig.from_content(colang_content=colang, yaml_content=YAML)
    app = LLMRails(cfg, llm=FakeLLM(responses=[]))
    app.runtime.disable_async_execution = True
    out, state = app.process_events([], None)
    allout = list(out)
    for ev in inputs:
        out, state = app.process_events([ev], state)
        allout += out
    return [{k: v for k, v in e.items() if k not in DROP} for e in allout], state


def find(events, type_, **kw):
    return [e for e in events if e["type"] == type_ and all(e.get(k) == v for k, v in kw.items())]

# Scenario A (deterministic): argument is a global that the callee updates.
COLANG_A = '''
flow bump $current
  global $count
  $count = $current + 1
  send Callee(current=$current)
  return $count

flow caller via global
  global $count
  $r = await bump $count
  send CallerDone(variant="global", r=$r)

flow caller via local copy
  global $count
  $tmp = $count
  $r = await bump $tmp
  send CallerDone(variant="local", r=$r)

flow main
  global $count
  $count = 0
  match Go()
  start caller via local copy
  match Go()
  start caller via global
  match Never()
'''

# Scenario B: documented built-in functions uid() / randint() as argument.
COLANG_B = '''
flow echo $value
  send Callee(value=$value)
  return $value

flow caller
  $r = await echo(uid())
  send CallerDone(variant="uid", r=$r)

flow main
  match Go()
  start caller
  match Never()
'''

bad = False

ev, st = run(COLANG_A, [{"type": "Go"}, {"type": "Go"}, {"type": "Tick"}])
for e in ev:
    print("  A out:", e)
control = find(ev, "CallerDone", variant="local")
callee_runs = find(ev, "Callee")
got = find(ev, "CallerDone", variant="global")
stuck = [(fs.flow_id, fs.status.value) for fs in st.flow_states.values() if fs.flow_id == "caller via global"]
print("A control (argument copied to a local first): CallerDone =", control)
print("A expected: callee receives current=1 and caller emits CallerDone(variant='global', r=2)")
print("A happened: callee runs =", callee_runs, "| CallerDone(global) =", got, "| caller state =", stuck)
if control and len(callee_runs) == 2 and not got:
    print("A VIOLATION: callee ran with the bound value but the caller is stuck on the internal FlowStarted match")
    bad = True

ev, st = run(COLANG_B, [{"type": "Go"}, {"type": "Tick"}])
for e in ev:
    print("  B out:", e)
callee_runs = find(ev, "Callee")
got = find(ev, "CallerDone")
print("B expected: CallerDone(r=<the uid the callee received>)")
print("B happened: callee runs =", callee_runs, "| CallerDone =", got)
if callee_runs and not (got and got[0]["r"] == callee_runs[0]["value"]):
    print("B VIOLATION: `$r = await echo(uid())` never completes (argument re-evaluated for the FlowStarted match)")
    bad = True

sys.exit(1 if bad else 0)
