"""F47 (C02.a / C01): Colang 2.x with output rails listed in config.yml.  The loader generates `flow output rails $output_text`
prefixed with `import guardrails`, but never resolves that import: unless the user's own Colang imports `guardrails`, the
`_bot_say` hook is not installed and the configured rails never run.  exit 1 = reproduced."""
import sys, warnings
sys.path.insert(0, __file__.rsplit("/", 1)[0])
warnings.simplefilter("ignore")
from _v2chat import Chat  # noqa
from nemoguardrails.actions import action  # noqa
calls = []


@action(name="RailAAction")
async def rail_a(text: str):
    calls.append(text)
    return "BAD" not in text


@action(name="EchoAction")
async def echo(text: str):
    return text

CO = '''
import core
%s
flow main
  activate answering

flow answering
  user said something as $u
  $reply = await EchoAction(text=$u.transcript)
  bot say $reply

flow rail a
  global $bot_message
  $ok = await RailAAction(text=$bot_message)
  if not $ok
    bot say "REFUSED"
    abort
'''
YAML = 'colang_version: "2.x"\nmodels: []\nrails:\n  output:\n    flows:\n      - rail a\n'
res = {}
for label, imp in (("with `import guardrails` in the user's Colang", "import guardrails"), ("without it (config.yml only)", "")):
    del calls[:]
    c = Chat(CO % imp, yaml=YAML)
    c.app.register_action(rail_a, "RailAAction")
    c.app.register_action(echo, "EchoAction")
    out = [c.say("good 1")[0], c.say("BAD 2")[0]]
    res[label] = (out, list(calls))
    print("%-48s replies %s ; texts seen by the rail %s" % (label, out, calls))
ok = all(r[0][1] == ["REFUSED"] and r[1] for r in res.values())
print("F47 reproduced:", not ok)
sys.exit(0 if ok else 1)
