"""C01-H4: passthrough mode, multi-turn: the text an input rail rewrote in turn 1 is sent
to the LLM in its ORIGINAL form in turn 2.

Config: `passthrough: true`, one input rail that masks the word after "password is".
Turn 1: the LLM prompt contains only the masked text (correct).
Turn 2: the client sends the usual stateless history [user1 (as typed), assistant1, user2].
        The events of turn 1 are found in the history cache (UserMessage.text is masked there),
        but generate_user_intent builds the LLM prompt from the raw `messages` list and only
        patches the LAST user message, so the un-masked turn-1 text goes to the LLM.

Expected (C01, "every prompt sent to the LLM sees only the rewritten text", every turn position):
no prompt ever contains "hunter2".
exit 1 = violation reproduced, exit 0 = correct behaviour.
"""
import argparse
import hashlib
import logging
import re
import sys

ap = argparse.ArgumentParser()
ap.add_argument("--root", default="/repo")
args = ap.parse_args()
sys.path.insert(0, args.root)
logging.disable(logging.CRITICAL)

from nemoguardrails import LLMRails, RailsConfig  # noqa: E402
from nemoguardrails.embeddings.providers import register_embedding_provider  # noqa: E402
from nemoguardrails.embeddings.providers.base import EmbeddingModel  # noqa: E402
from tests.utils import FakeLLM  # noqa: E402


class FakeHash(EmbeddingModel):
    engine_name = "fakehash"

    def __init__(self, embedding_model=None, **kwargs):
        self.model = embedding_model
        self.embedding_size = 32

    def encode(self, documents):
        return [[b / 255.0 for b in hashlib.sha256(d.encode()).digest()] for d in documents]

    async def encode_async(self, documents):
        return self.encode(documents)


register_embedding_provider(FakeHash, "fakehash")


class RecLLM(FakeLLM):
    prompts: list = []

    def _call(self, prompt, stop=None, run_manager=None, **kw):
        self.prompts.append(prompt)
        return super()._call(prompt, stop, run_manager, **kw)

    async def _acall(self, prompt, stop=None, run_manager=None, **kw):
        self.prompts.append(prompt)
        return await super()._acall(prompt, stop, run_manager, **kw)


YAML = """
models:
  - type: main
    engine: fake
    model: fake
  - type: embeddings
    engine: fakehash
    model: x
passthrough: true
rails:
  input:
    flows:
      - mask secrets
"""
COLANG = """
define subflow mask secrets
  $user_message = execute mask_secrets
"""

cfg = RailsConfig.from_content(colang_content=COLANG, yaml_content=YAML)
llm = RecLLM(responses=["Noted.", "Sure.", "x", "y"], prompts=[])
app = LLMRails(cfg, llm=llm)


async def mask_secrets(context=None):
    return re.sub(r"(password is )\S+", r"\1<MASKED>", context.get("user_message"))


app.register_action(mask_secrets, "mask_secrets")

TURN1 = "my password is hunter2"
TURN2 = "what did I just tell you?"

print("input rail masks the password; expected: no prompt sent to the LLM ever contains 'hunter2'\n")

# turn 1 (a copy of the dicts is passed: generate() patches the last message dict in place)
reply1 = app.generate(messages=[{"role": "user", "content": TURN1}])
print(f"turn 1 prompt -> {llm.prompts[-1]!r}")
leak1 = "hunter2" in str(llm.prompts[-1])

# turn 2: the client resends the conversation as the user typed it
n = len(llm.prompts)
reply2 = app.generate(
    messages=[
        {"role": "user", "content": TURN1},
        reply1,
        {"role": "user", "content": TURN2},
    ]
)
turn2_prompts = llm.prompts[n:]
for p in turn2_prompts:
    print(f"turn 2 prompt -> {p!r}")
leak2 = any("hunter2" in str(p) for p in turn2_prompts)

if leak1 or leak2:
    print("\nVIOLATION: the original (un-masked) text of a message the input rail rewrote was sent to the LLM"
          + (" in turn 2" if leak2 and not leak1 else ""))
    sys.exit(1)
print("\nno violation")
sys.exit(0)
