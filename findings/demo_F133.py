"""C04h2-H3: an expected dict does not match an equal received dict that came from a Colang
variable.

`eval_expression` turns every dict held in a `$variable` into an `AttributeDict` (a dict
subclass), so events and flow parameters created from a variable carry AttributeDict values.
`_compute_arguments_dict_matching_score` rejects them with
`elif not isinstance(ref_args, type(args)): return 0.0` - the expected plain dict literal
`{"a": 1}` is not an instance of the received value's class AttributeDict - before the dict
rules are applied. The same event sent with a dict literal matches.
"""
import argparse, contextlib, io, logging, sys

parser = argparse.ArgumentParser()
parser.add_argument("--root", default="/repo")
ROOT = parser.parse_args().root
sys.path.insert(0, ROOT)
logging.disable(logging.CRITICAL)

from nemoguardrails.colang.v2_x.runtime.statemachine import (  # noqa: E402
    InternalEvent,
    run_to_completion,
)
from tests.utils import _init_state  # noqa: E402


def start(colang):
    """Parse the Colang 2.x source, start the main flow and return the state."""
    with contextlib.redirect_stdout(io.StringIO()):
        state = _init_state(colang)
    return run_to_completion(
        state, InternalEvent(name="StartFlow", arguments={"flow_id": "main"})
    )


def feed(state, event):
    """Process one event, return (state, list of scripts the flows uttered)."""
    state = run_to_completion(state, event)
    return state, [
        e.get("script")
        for e in state.outgoing_events
        if e["type"] == "StartUtteranceBotAction"
    ]

bad = False

# Part 1: flow parameter (internal FlowFinished event), state machine only
TEMPLATE = """
flow job $options
  match Go()

flow main
  $options = {"a": 1, "b": 2}
  start job(options=%s)
  match job.Finished(options={"a": 1})
  send StartUtteranceBotAction(script="Success")
"""
for title, arg, in [("control: start job(options={\"a\": 1, \"b\": 2})", '{"a": 1, "b": 2}'),
                    ("start job(options=$options) with $options = {\"a\": 1, \"b\": 2}", "$options")]:
    state = start(TEMPLATE % arg)
    state, said = feed(state, {"type": "Go"})
    ok = "Success" in said
    print(f'{title}\n    match job.Finished(options={{"a": 1}}) -> expected: advance; advanced: {ok}')
    if not ok:
        if title.startswith("control"):
            print("control failed, the harness does not work")
            sys.exit(2)
        bad = True

# Part 2: a UMIM event sent by a flow, through the public LLMRails.process_events
# (the runtime feeds the outgoing events back as input events)
from nemoguardrails import LLMRails, RailsConfig  # noqa: E402
from tests.utils import FakeLLM  # noqa: E402

TEMPLATE2 = """
flow listener
  match DeviceStatus(info={"battery": "low"})
  send StartUtteranceBotAction(script="Success")

flow main
  activate listener
  match UtteranceUserActionFinished()
  $info = {"battery": "low", "id": 7}
  send DeviceStatus(info=%s)
  match Never()
"""
for title, arg in [("control: send DeviceStatus(info={\"battery\": \"low\", \"id\": 7})", '{"battery": "low", "id": 7}'),
                   ("send DeviceStatus(info=$info) with the same value in $info", "$info")]:
    config = RailsConfig.from_content(colang_content=TEMPLATE2 % arg, yaml_content='colang_version: "2.x"\nmodels: []\n')
    app = LLMRails(config, llm=FakeLLM(responses=[]))
    _, state = app.process_events([], None)
    out, state = app.process_events([{"type": "UtteranceUserActionFinished", "final_transcript": "hi"}], state)
    ok = any(e["type"] == "StartUtteranceBotAction" and e["script"] == "Success" for e in out)
    print(f'{title}\n    match DeviceStatus(info={{"battery": "low"}}) -> expected: advance; advanced: {ok}')
    if not ok:
        if title.startswith("control"):
            print("control failed, the harness does not work")
            sys.exit(2)
        bad = True

if bad:
    print("\nVIOLATION: the expected dict entries are present in the received dict, the statement did not advance")
    sys.exit(1)
print("\nexpected dicts matched the received dicts")
sys.exit(0)
