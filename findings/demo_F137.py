#!/usr/bin/env python
"""C08h2-H2: `$x = await <flow> or <flow>` (and `... and ...`) parses and runs, but the
value given to `return` by the awaited flow is never assigned: `$x` silently keeps its
old value. The same statement with a single flow assigns the returned value.

exit 1 = violation reproduced, exit 0 = behaviour correct.
"""
import argparse
import logging
import sys

ap = argparse.ArgumentParser()
ap.add_argument("--root", default="/repo")
args = ap.parse_args()
sys.path.insert(0, args.root)
logging.disable(logging.CRITICAL)

from nemoguardrails import LLMRails, RailsConfig  # noqa: E402
from tests.utils import FakeLLM  # noqa: E402

COLANG = '''
flow user picked $word
  match UtteranceUserAction.Finished(final_transcript=$word)
  return "picked {$word}"

flow main
  # control: a single awaited flow
  $single = "unset"
  $single = await user picked "one"
  send Observed(case="single", value=$single)

  # the same with an or-group: whichever flow finishes returns a value
  $choice = "unset"
  $choice = await user picked "two" or user picked "three"
  send Observed(case="or-group", value=$choice)

  # and with an and-group
  $both = "unset"
  $both = await user picked "four" and user picked "five"
  send Observed(case="and-group", value=$both)
  match Never()
'''

try:
    config = RailsConfig.from_content(
        colang_content=COLANG, yaml_content='colang_version: "2.x"\nmodels: []\n'
    )
    app = LLMRails(config, llm=FakeLLM(responses=[]))
    app.runtime.disable_async_execution = True
    out, state = app.process_events([], None)
except Exception as e:  # noqa: BLE001
    if "Syntax" in type(e).__name__:
        # Rejecting the unsupported statement loudly is a correct behaviour as well
        print("the assignment from a group is rejected:", type(e).__name__, e)
        sys.exit(0)
    raise
seen = {}
for text in ["one", "two", "four", "five"]:
    out, state = app.process_events(
        [{"type": "UtteranceUserActionFinished", "final_transcript": text}], state
    )
    for e in out:
        if e["type"] == "Observed":
            seen[e["case"]] = e["value"]

print("observed:", seen)
ok = True
if seen.get("single") != "picked one":
    print("control failed: $single =", seen.get("single"))
    ok = False
if seen.get("or-group") != "picked two":
    print("VIOLATION: expected $choice == 'picked two' (value returned by the flow that "
          "finished), got", repr(seen.get("or-group")))
    ok = False
if seen.get("and-group") not in ("picked four", "picked five"):
    print("VIOLATION: expected $both to hold a returned value, got", repr(seen.get("and-group")))
    ok = False
sys.exit(0 if ok else 1)
