"""C17-H4: Colang 2.x - a value produced by the LLM (`$name = ..."instruction"`, GenerateValueAction)
that is afterwards interpolated into a string (`bot say "Nice to meet you, {$name}!"`, the documented
pattern) is EVALUATED as Colang/Python expression code when it contains two consecutive quote
characters: the value is spliced into the expression source and the quote escaping misses the second
of two adjacent quotes, so the text after it leaves the string literal.

LLM completion:   'Bob"" + str(7*7) + $api_key #'     (a plain string literal for literal_eval)
Expected reply:   Nice to meet you, Bob"" + str(7*7) + $api_key #!     (text passed through literally)
Actual reply:     Nice to meet you, Bob"49TOPSECRET-123                (arithmetic evaluated, flow variable leaked)

A second, harmless completion shows the other face of the same splice: template / variable syntax in
the generated value is rewritten instead of being passed through:

LLM completion:   "Bob {{ 7*7 }} costs $USD {$api_key}"
Expected reply:   Nice to meet you, Bob {{ 7*7 }} costs $USD {$api_key}!
Actual reply:     Nice to meet you, Bob { 7*7 } costs var_USD {var_api_key}!

Exit code 1 = violation reproduced, 0 = behaviour correct.
"""
import argparse
import asyncio
import sys

p = argparse.ArgumentParser()
p.add_argument("--root", default="/repo")
args = p.parse_args()
sys.path.insert(0, args.root)

import hashlib
import logging

logging.disable(logging.CRITICAL)

from nemoguardrails import LLMRails, RailsConfig
from nemoguardrails.embeddings.providers import register_embedding_provider
from nemoguardrails.embeddings.providers.base import EmbeddingModel
from tests.utils import FakeLLM


class FakeHash(EmbeddingModel):
    engine_name = "fakehash"

    def __init__(self, embedding_model=None, **kwargs):
        self.model = embedding_model
        self.embedding_size = 16

    def encode(self, documents):
        return [[b / 255.0 for b in hashlib.sha256(d.encode()).digest()[:16]] for d in documents]

    async def encode_async(self, documents):
        return self.encode(documents)


register_embedding_provider(FakeHash, "fakehash")

COLANG = '''
import core
import llm

flow main
  $api_key = "TOPSECRET-123"
  user said something
  $name = ..."Extract the name of the user from the last message."
  bot say "Nice to meet you, {$name}!"
'''
YAML = '''
colang_version: "2.x"
models:
  - type: main
    engine: fake
    model: fake
  - type: embeddings
    engine: fakehash
    model: x
'''


def run(completion):
    config = RailsConfig.from_content(colang_content=COLANG, yaml_content=YAML)
    app = LLMRails(config, llm=FakeLLM(responses=[completion, "unused", "unused"]))
    return asyncio.run(
        app.generate_async(messages=[{"role": "user", "content": "Hi, I am Bob"}])
    )


# control
res = run('"Bob"')
print(f"control completion '\"Bob\"' -> {res.get('content')!r}")
if res.get("content") != "Nice to meet you, Bob!":
    print("control case does not work in this environment; nothing to compare against")
    sys.exit(0)

value = 'Bob"" + str(7*7) + $api_key #'
completion = repr(value)  # what the LLM returns: a quoted python/colang string literal
try:
    res = run(completion)
except Exception as e:
    print(f"completion {completion}: generate_async RAISED {type(e).__name__}: {e}")
    print("VIOLATION: LLM output broke the turn")
    sys.exit(1)

content = res.get("content")
expected = f"Nice to meet you, {value}!"
print(f"LLM completion : {completion}")
print(f"expected reply : {expected!r}   (generated value passed through literally)")
print(f"actual reply   : {content!r}")
bad = []
if "str(7*7)" not in (content or ""):
    bad.append("the text 'str(7*7)' of the generated value is no longer present literally")
if "49" in (content or ""):
    bad.append("'str(7*7)' inside the LLM-generated value was evaluated to 49")
if "TOPSECRET-123" in (content or ""):
    bad.append("'$api_key' inside the LLM-generated value was resolved and the flow variable leaked")

# second completion: nothing hostile, only template / variable syntax inside the text
value2 = "Bob {{ 7*7 }} costs $USD {$api_key}"
completion2 = '"' + value2 + '"'
res2 = run(completion2)
content2 = res2.get("content")
expected2 = f"Nice to meet you, {value2}!"
print()
print(f"LLM completion : {completion2}")
print(f"expected reply : {expected2!r}   (template text literally present)")
print(f"actual reply   : {content2!r}")
if content2 != expected2:
    bad.append("template/variable syntax inside the LLM-generated value was rewritten "
               "('$USD' -> 'var_USD', '{{' -> '{', '{$api_key}' -> '{var_api_key}') instead of passed through literally")

if bad:
    for b in bad:
        print("VIOLATION:", b)
    sys.exit(1)
print("ok: the generated value was treated as data")
sys.exit(0)
