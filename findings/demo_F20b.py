"""C10-H2: an activated flow that fails immediately (runtime error before its first waiting statement)
is restarted forever inside ONE run_to_completion() call -> processing one event never terminates.

Expected (property C10): processing one event terminates within a bound that depends on the program
size; the runtime error fails only the faulty flow (ColangError), unrelated flows keep working.
Actual: _advance_head_front() catches the error, calls _abort_flow(); _abort_flow() restarts the flow
because it is activated (StartFlow pushed to the FRONT of the internal queue); the new instance fails
again at once, ... The "immediate finish" guard of _advance_head_front only covers flows that
*finish* immediately, not flows that *fail* immediately.

usage: demo.py [--root <repo root>]     exit 1 = violation reproduced, exit 0 = correct behaviour
"""
import argparse
import json
import logging
import os
import subprocess
import sys
import threading

ap = argparse.ArgumentParser()
ap.add_argument("--root", default="/repo")
ap.add_argument("--child", default=None)
args = ap.parse_args()
sys.path.insert(0, args.root)
logging.disable(logging.CRITICAL)

BUDGET_S = 20  # wall clock budget for ONE process_events call of a 4-flow program (normally ~10 ms)

UNRELATED = """
flow good
  match UtteranceUserActionFinished(final_transcript="ping")
  send StartUtteranceBotAction(script="pong")
"""

VARIANTS = {
    # The faulty flow fails the first time it is started.
    "fails_on_first_start": (
        """
flow main
  activate good
  activate faulty

flow faulty
  $x = $settings.threshold + 1
  match UtteranceUserActionFinished(final_transcript="never")
"""
        + UNRELATED,
        [],  # only termination is checked here (main itself may legitimately fail with its activated flow)
    ),
    # The faulty flow starts fine and only fails (immediately) after its restart, while a user event is processed.
    "fails_after_restart": (
        """
flow main
  activate good
  activate faulty

flow faulty
  global $armed
  if $armed
    $x = $settings.threshold + 1
  match UtteranceUserActionFinished(final_transcript="arm")
  $armed = True
"""
        + UNRELATED,
        ["ping", "arm", "ping"],
    ),
}


def child(name):
    import hashlib

    import nemoguardrails.colang.v2_x.runtime.statemachine as sm
    from nemoguardrails import LLMRails, RailsConfig
    from nemoguardrails.embeddings.providers import register_embedding_provider
    from nemoguardrails.embeddings.providers.base import EmbeddingModel
    from nemoguardrails.utils import new_event_dict
    from tests.utils import FakeLLM

    class FakeHash(EmbeddingModel):
        engine_name = "fakehash"

        def __init__(self, *a, **k):
            pass

        def encode(self, documents):
            return [[b / 255.0 for b in hashlib.sha256(d.encode()).digest()] for d in documents]

        async def encode_async(self, documents):
            return self.encode(documents)

    register_embedding_provider(FakeHash, "fakehash")
    yaml = 'colang_version: "2.x"\nmodels:\n  - type: embeddings\n    engine: fakehash\n    model: x\n'

    # Observation only: count the internal events handled by the interpreter
    counter = {"internal_events": 0, "flow_instances": 0, "step": "startup"}
    orig = sm._process_internal_events_without_default_matchers

    def counting(state, event):
        counter["internal_events"] += 1
        counter["flow_instances"] = len(state.flow_states)
        return orig(state, event)

    sm._process_internal_events_without_default_matchers = counting

    def watchdog():
        print("RESULT " + json.dumps({"hang": True, **counter}), flush=True)
        os._exit(0)

    def arm_watchdog():
        t = threading.Timer(BUDGET_S, watchdog)
        t.daemon = True
        t.start()
        return t

    colang, turns = VARIANTS[name]
    cfg = RailsConfig.from_content(colang_content=colang, yaml_content=yaml)
    app = LLMRails(cfg, llm=FakeLLM(responses=[]))
    app.runtime.disable_async_execution = True

    t = arm_watchdog()
    _, state = app.process_events([], None)
    t.cancel()

    replies = []
    for text in turns:
        counter["step"] = "user said %r" % text
        inp = [{"type": "UtteranceUserActionFinished", "final_transcript": text}]
        msgs = []
        while inp:
            t = arm_watchdog()
            out, state = app.process_events(inp, state)
            t.cancel()
            inp = []
            for ev in out:
                if ev["type"] == "StartUtteranceBotAction":
                    msgs.append(ev["script"])
                    inp.append(new_event_dict("UtteranceBotActionStarted", action_uid=ev["action_uid"]))
                    inp.append(
                        new_event_dict(
                            "UtteranceBotActionFinished",
                            action_uid=ev["action_uid"],
                            is_success=True,
                            final_script=ev["script"],
                        )
                    )
        replies.append(msgs)
    print("RESULT " + json.dumps({"hang": False, "replies": replies, **counter}), flush=True)
    os._exit(0)


if args.child:
    child(args.child)

violations = 0
for name in VARIANTS:
    try:
        p = subprocess.run(
            [sys.executable, os.path.abspath(__file__), "--root", args.root, "--child", name],
            capture_output=True,
            text=True,
            timeout=BUDGET_S * 4 + 120,
        )
        lines = [l for l in p.stdout.splitlines() if l.startswith("RESULT ")]
        res = json.loads(lines[-1][7:]) if lines else {"hang": None, "stderr": p.stderr[-400:]}
    except subprocess.TimeoutExpired:
        res = {"hang": True, "note": "child had to be killed"}
    print("[%s]" % name)
    print("  expected: every process_events call returns (well) within %d s; 'good' answers 'ping' with 'pong'" % BUDGET_S)
    print("  actual  : %r" % (res,))
    if res.get("hang") is not False:
        violations += 1
    elif any(r != ["pong"] for r, t in zip(res["replies"], VARIANTS[name][1]) if t == "ping"):
        violations += 1

if violations:
    print("VIOLATION: an activated flow that fails immediately is restarted endlessly within one event")
    sys.exit(1)
print("OK: event processing terminated")
sys.exit(0)
